#!/bin/sh
# usage: tools/try_mutant.sh <patch.diff> <Cxx> [more props]   -- runs the quick checks against a scratch copy of /repo with the patch
set -e
P="$1"; shift
D=$(mktemp -d /var/tmp/mutant.XXXXXX)
trap 'rm -rf "$D"' EXIT
rsync -a --exclude target --exclude .git /repo/ "$D/r/"
(cd "$D/r" && git init -q . && git apply --whitespace=nowarn "$P")
for c in "$@"; do
  echo "=== $c on $(basename $(dirname $P))/$(basename $P)"
  VERIF_EVIDENCE_DIR="${MUT_EVIDENCE:-/var/tmp/w0/mut_evidence}" VERIF_REPO="$D/r" timeout ${MUT_TIMEOUT:-1500} /verif/check "$c" --tier ${MUT_TIER:-quick} 2>&1 | grep -v '^  what' | tail -${TAILN:-4} | cut -c1-400
done
