#!/usr/bin/env python3
import json,glob
print('| seeded change | property | needs, in order to manifest | detected by (quick tier) | violated obligations |')
print('|---|---|---|---|---|')
for f in sorted(glob.glob('/verif/seeded/*/meta.json')):
    m=json.load(open(f))
    obl=[]
    for c,x in m.get('checks',{}).items():
        obl+=x.get('violated_obligations',[])
    print('| %s | %s | %s | %s | %s |'%(m['name'],m['property'],m['needs_to_manifest'],', '.join(m.get('detected_by',[])) or '**not detected**','; '.join(obl[:3])))
