#!/usr/bin/env python3
import json,glob
print('| seeded change | property | needs, in order to manifest | detected by (quick tier, exit 1 + VIOLATION line) |')
print('|---|---|---|---|')
for f in sorted(glob.glob('/verif/seeded/*/meta.json')):
    m=json.load(open(f))
    print('| %s | %s | %s | %s |'%(m['name'],m['property'],m['needs_to_manifest'],', '.join(m.get('detected_by',[])) or '**not detected**'))
