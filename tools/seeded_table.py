#!/usr/bin/env python3
"""table of the kept seeded changes from their meta.json; optional argument: base commit to select (round)"""
import json, glob, sys
base = sys.argv[1] if len(sys.argv) > 1 else None
neg = base.startswith('!') if base else False
if neg:
    base = base[1:]
print('| seeded change | property | needs, in order to manifest | detected by (quick tier, exit 1 + VIOLATION line) |')
print('|---|---|---|---|')
for f in sorted(glob.glob('/verif/seeded/*/meta.json')):
    m = json.load(open(f))
    if base and ((m.get('base_commit') == base) == neg):
        continue
    print('| %s | %s | %s | %s |' % (m['name'], m['property'], m['needs_to_manifest'].replace('|', '\\|').replace('\n', ' ')[:260], ', '.join(m.get('detected_by', [])) or '**not detected**'))
