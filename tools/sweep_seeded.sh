#!/bin/bash
# run every kept seeded change against the quick check of its property (and extra properties given in meta.json), 3 at a time;
# records the verdict in seeded/<name>/meta.json
cd /verif
mkdir -p /var/tmp/w0/sweep
one() {
  d=$1; name=$(basename $d)
  props=$(python3 -c "import json;m=json.load(open('$d/meta.json'));print(' '.join([m['property']]+m.get('also_check',[])))")
  for c in $props; do
    out=/var/tmp/w0/sweep/${name}__$c.log
    VERIF_JOBS=5 timeout 2400 tools/try_mutant.sh /verif/$d/patch.diff $c > $out 2>&1
    python3 - "$d" "$c" "$out" <<'PY'
import json,sys,re
d,c,out=sys.argv[1:4]
t=open(out).read()
m=json.load(open(d+'/meta.json'))
ex=re.search(r'exit=(\d)',t)
v=len(re.findall(r'^VIOLATION',t,re.M))
m.setdefault('checks',{})[c]={'exit':int(ex.group(1)) if ex else None,'violation_lines':v,
   'violated_obligations':sorted(set(re.findall(r'what: ([^ ]+?)(?: violated|:)',t)))[:6]}
m['detected_by']=sorted(k for k,x in m['checks'].items() if x['exit']==1)
json.dump(m,open(d+'/meta.json','w'),indent=1)
PY
  done
}
for d in ${SWEEP_DIRS:-seeded/*/}; do
  while [ $(jobs -r | wc -l) -ge 3 ]; do sleep 3; done
  one ${d%/} &
done
wait
echo ALLDONE > /var/tmp/w0/sweep/DONE
