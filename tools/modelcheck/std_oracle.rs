// Prints what the compiled std does on every string over a small alphabet up to length 3 (model validation, DESIGN 2.4).
use std::str::FromStr;
fn esc(s: &str) -> String { s.bytes().map(|b| format!("{:02x}", b)).collect::<Vec<_>>().join("") }
fn main() {
    let alpha: Vec<u8> = b" \t\x0b\ra:,;q=01.+-xN".to_vec();
    let mut strings: Vec<Vec<u8>> = vec![vec![]];
    let mut cur: Vec<Vec<u8>> = vec![vec![]];
    for _ in 0..3 {
        let mut nxt = Vec::new();
        for s in &cur { for &c in &alpha { let mut t = s.clone(); t.push(c); nxt.push(t); } }
        strings.extend(nxt.iter().cloned());
        cur = nxt;
    }
    for extra in ["nan", "NaN", "inf", "-inf", "+inf", "infinity", "1e3", "0.5", "1.000", "18446744073709551615", "18446744073709551616", "00000000000000000000001", "+5", "-0", "chunked", "CHUNKED", "Identity"] {
        strings.push(extra.as_bytes().to_vec());
    }
    for b in strings {
        let s = String::from_utf8(b).unwrap();
        println!("S {}", esc(&s));
        println!("trim {}", esc(s.trim()));
        println!("trim_start {}", esc(s.trim_start()));
        println!("trim_end {}", esc(s.trim_end()));
        println!("split_comma {}", s.split(',').map(esc).collect::<Vec<_>>().join("|"));
        println!("splitn2_colon {}", s.splitn(2, ':').map(esc).collect::<Vec<_>>().join("|"));
        println!("contains_ws {}", s.contains(char::is_whitespace));
        println!("contains_close {}", s.contains("a:"));
        println!("starts_q {}", s.starts_with("q="));
        println!("eq_ic_qa {}", s.eq_ignore_ascii_case("Qa"));
        println!("lower {}", esc(&s.to_ascii_lowercase()));
        println!("usize {}", match usize::from_str(&s) { Ok(v) => format!("ok{}", v), Err(_) => "err".to_string() });
        println!("hex {}", match usize::from_str_radix(&s, 16) { Ok(v) => format!("ok{}", v), Err(_) => "err".to_string() });
        println!("f32 {}", match f32::from_str(&s) { Ok(v) => if v.is_nan() { "nan".to_string() } else if v.is_infinite() { if v > 0.0 { "inf".to_string() } else { "ninf".to_string() } } else { format!("fin{}", (v * 1000.0).round() as i64) }, Err(_) => "err".to_string() });
    }
}
