#!/opt/veriftools/pyvenv/bin/python
"""Model validation (DESIGN 2.4): run mirsym's E-str / integer / f32 models CONCRETELY on every string over a small alphabet up to
length 3 (plus a few long ones) and compare with what the compiled std prints (std_oracle.rs). Exit 0 = all agree."""
import sys, os, subprocess, tempfile, shutil
sys.path.insert(0, '/verif')
import z3
from mirsym.values import *
from mirsym.interp import Interp, Explorer, Ctx
from mirsym.models import MODELS, as_slice, split_next


def esc(b):
    return b.hex()


def main():
    d = tempfile.mkdtemp(prefix='modelcheck.', dir='/var/tmp')
    try:
        exe = os.path.join(d, 'oracle')
        subprocess.check_call(['rustc', '-O', '-o', exe, '/verif/tools/modelcheck/std_oracle.rs'], cwd=d)
        out = subprocess.check_output([exe]).decode().split('\n')
    finally:
        pass
    ex = Explorer()
    ctx = Ctx(ex, [], 10**9)

    class P:
        fns = {}
        traitm = {}
        inherent = {}
        free = {}
        enums = {}
    it = Interp(P(), ctx, MODELS)
    cur = None
    exp = {}
    cases = []
    for l in out:
        if not l:
            continue
        k, _, v = l.partition(' ')
        if k == 'S':
            cur = bytes.fromhex(v)
            exp = {}
            cases.append((cur, exp))
        else:
            exp[k] = v
    bad = 0
    n = 0

    def sl(b):
        return whole(Buf.from_bytes(b), True)

    def info(m, text=''):
        return {'method': m, 'text': text, 'segs': ['str', m]}
    for s, exp in cases:
        got = {}
        for m in ('trim', 'trim_start', 'trim_end'):
            got[m] = esc(MODELS['str::' + m](it, [sl(s)], info(m)).concrete())
        sp = MODELS['str::split'](it, [sl(s), bv(ord(','), 32)], info('split'))
        parts = []
        while True:
            r = split_next(it, sp)
            if r.variant == 'None':
                break
            parts.append(esc(r.fields[0].concrete()))
        got['split_comma'] = '|'.join(parts)
        sp = MODELS['str::splitn'](it, [sl(s), bv(2), bv(ord(':'), 32)], info('splitn'))
        parts = []
        while True:
            r = split_next(it, sp)
            if r.variant == 'None':
                break
            parts.append(esc(r.fields[0].concrete()))
        got['splitn2_colon'] = '|'.join(parts)
        from mirsym.values import FnItem
        got['contains_ws'] = str(bool(conc(MODELS['str::contains'](it, [sl(s), FnItem('char::is_whitespace')], info('contains'))))).lower()
        got['contains_close'] = str(bool(conc(MODELS['str::contains'](it, [sl(s), sl(b'a:')], info('contains'))))).lower()
        got['starts_q'] = str(bool(conc(MODELS['str::starts_with'](it, [sl(s), sl(b'q=')], info('starts_with'))))).lower()
        got['eq_ic_qa'] = str(bool(conc(MODELS['str::eq_ignore_ascii_case'](it, [sl(s), sl(b'Qa')], info('eq_ignore_ascii_case'))))).lower()
        lw = MODELS['str::to_ascii_lowercase'](it, [sl(s)], info('to_ascii_lowercase'))
        got['lower'] = esc(as_slice(it, lw).concrete())
        r = MODELS['<usize as FromStr>::from_str'](it, [sl(s)], info('from_str'))
        got['usize'] = 'ok%d' % conc(r.fields[0]) if r.variant == 'Ok' else 'err'
        r = MODELS['usize::from_str_radix'](it, [sl(s), bv(16, 32)], info('from_str_radix'))
        got['hex'] = 'ok%d' % conc(r.fields[0]) if r.variant == 'Ok' else 'err'
        r = MODELS['<f32 as FromStr>::from_str'](it, [sl(s)], info('from_str'))
        if r.variant == 'Err':
            got['f32'] = 'err'
        else:
            f = r.fields[0]
            if f.cls == 'fin':
                v = conc(f.milli)
                if v >= 1 << 31:
                    v -= 1 << 32
                got['f32'] = 'fin%d' % v
            else:
                got['f32'] = f.cls
        for k, v in exp.items():
            n += 1
            if got.get(k) != v:
                # f32 rounding of values the milli abstraction cannot represent exactly is tolerated within 1 unit
                if k == 'f32' and v.startswith('fin') and got[k].startswith('fin') and (abs(int(v[3:]) - int(got[k][3:])) <= 1 or
                                                                                      (abs(int(v[3:])) >= 2**31 - 1 and abs(int(got[k][3:])) >= 2**31 - 1)):
                    continue        # the milli abstraction saturates at 2^31: both sides are "huge finite"
                bad += 1
                if bad <= 25:
                    print('MISMATCH %-14s on %r: std=%s model=%s' % (k, s, v, got.get(k)))
    shutil.rmtree(d, ignore_errors=True)
    print('model validation: %d comparisons on %d strings, %d mismatches' % (n, len(cases), bad))
    return 1 if bad else 0


if __name__ == '__main__':
    sys.exit(main())
