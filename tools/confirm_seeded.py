#!/usr/bin/env python3
"""Confirm a seeded change independently: in a scratch copy of /repo's HEAD, (1) the patch applies and compiles, (2) the existing
suite passes with it, (3) the demonstration fails with it, (4) the demonstration passes without it. Writes
/verif/seeded/<name>/{patch.diff, demo.rs, meta.json}."""
import sys, os, subprocess, shutil, tempfile, json, re, time

def sh(cmd, cwd, timeout=900):
    p = subprocess.run(cmd, cwd=cwd, shell=True, stdout=subprocess.PIPE, stderr=subprocess.STDOUT, text=True, timeout=timeout)
    return p.returncode, p.stdout

def summarize(out):
    passed = sum(int(m.group(1)) for m in re.finditer(r'test result: \w+\. (\d+) passed', out))
    failed = sum(int(m.group(1)) for m in re.finditer(r'test result: \w+\. \d+ passed; (\d+) failed', out))
    return passed, failed

def main():
    prop, patch, demo, name, needs = sys.argv[1:6]
    d = tempfile.mkdtemp(prefix='seedconf.', dir='/var/tmp')
    res = {'property': prop, 'name': name, 'needs_to_manifest': needs, 'source_patch': patch, 'source_demo': demo, 'checked_at': time.strftime('%Y-%m-%d %H:%M'),
           'base_commit': subprocess.check_output(['git', '-C', '/repo', 'rev-parse', '--short', 'HEAD']).decode().strip()}
    try:
        r = os.path.join(d, 'r')
        subprocess.check_call(['rsync', '-a', '--exclude', 'target', '--exclude', '.git', '/repo/', r + '/'])
        sh('git init -q . && git add -A && git commit -qm base', r)
        rc, out = sh('git apply --whitespace=nowarn %s' % patch, r)
        res['applies'] = rc == 0
        if rc != 0:
            res['status'] = 'patch does not apply to the current tree'
            return res
        tname = 'demo_seeded'
        if demo.endswith('.rs'):
            shutil.copy(demo, os.path.join(r, 'tests', tname + '.rs'))
            democmd = 'cargo test --offline --test %s -- --test-threads 4' % tname
        else:
            rc, out = sh('git apply --whitespace=nowarn %s' % demo, r)
            democmd = 'cargo test --offline --lib -- --test-threads 4'
        env = 'CARGO_NET_OFFLINE=true '
        rc1, out1 = sh(env + democmd, r, 1200)
        p1, f1 = summarize(out1)
        res['demo_with_change'] = {'exit': rc1, 'passed': p1, 'failed': f1}
        rc2, out2 = sh(env + 'cargo test --offline --no-fail-fast -- --test-threads 8 2>&1', r, 1500)
        # existing suite = everything except the demo binary
        blocks = re.split(r'\n\s+Running ', out2)
        ex_failed = 0
        ex_passed = 0
        for b in blocks:
            if tname in b.split('\n')[0]:
                continue
            p, f = summarize(b)
            ex_passed += p
            ex_failed += f
        res['existing_suite_with_change'] = {'passed': ex_passed, 'failed': ex_failed}
        sh('git checkout -q -- src', r)
        rc3, out3 = sh(env + democmd, r, 1200)
        p3, f3 = summarize(out3)
        res['demo_without_change'] = {'exit': rc3, 'passed': p3, 'failed': f3}
        ok = (f1 > 0 or (rc1 != 0 and p1 == 0 and 'error' not in out1[:200])) and ex_failed == 0 and ex_passed >= 38 and rc3 == 0 and f3 == 0
        res['confirmed'] = bool(ok)
        res['status'] = 'confirmed' if ok else 'not confirmed'
        if not ok:
            res['tail_with'] = out1[-800:]
            res['tail_without'] = out3[-500:]
        return res
    finally:
        shutil.rmtree(d, ignore_errors=True)
        out = os.path.join('/verif/seeded', name)
        if res.get('confirmed'):
            os.makedirs(out, exist_ok=True)
            shutil.copy(patch, os.path.join(out, 'patch.diff'))
            shutil.copy(demo, os.path.join(out, 'demo' + os.path.splitext(demo)[1]))
            res['ran'] = ['git apply patch.diff (scratch copy of /repo HEAD)', 'cargo test --offline --test demo_seeded  (fails)', 'cargo test --offline  (existing suite: %d passed, 0 failed)' % res['existing_suite_with_change']['passed'], 'git checkout -- src ; cargo test --offline --test demo_seeded  (passes)']
            json.dump(res, open(os.path.join(out, 'meta.json'), 'w'), indent=1)
        print(json.dumps({k: v for k, v in res.items() if not k.startswith('tail')}))

main()
