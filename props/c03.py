"""C03 - request body delimited exactly by the framing.   (shared machinery for C09, C11, C18)

new_request (framing decision, small-body buffering), EqualReader, FusedReader, SequentialReader and the dependency
chunked_transfer::Decoder are executed from the MIR; the socket delivers arbitrary short reads (symbolic counts).
"""
import z3
from mirsym.values import *
from mirsym.harness import *
from mirsym.interp import RustPanic, Blocked, Unsupported
from mirsym.report import Violation
from props.connlib import *
from props.c02 import collect_simple

LEVEL = 'model_checking'


def sym_bytes(ctx, n, label='body'):
    return [ctx.fresh_bv(label, 8) for _ in range(n)]


def hexdigits(n, upper=False, lead=0):
    s = ('%X' if upper else '%x') % n
    return ('0' * lead + s).encode()


def chunked_body(ctx, sizes, style=0):
    """wire bytes of a chunked body with the given chunk sizes; style selects hex case / leading zeros / extensions"""
    wire = []
    payload = []
    for i, n in enumerate(sizes):
        data = sym_bytes(ctx, n)
        payload += data
        sz = hexdigits(n, upper=(style == 1), lead=(2 if style == 2 else 0))
        wire += K(sz)
        if style == 3:
            wire += K(b';ext=1')
        wire += CRLF + data + CRLF
    wire += K(b'0' if style != 2 else b'000') + CRLF + CRLF
    return wire, payload


FRAMINGS = ['none', 'cl0', 'cl-small', 'cl-1024', 'cl-1025', 'chunked', 'chunked+cl', 'upgrade']


def build_request(ctx, framing, tier, expect=False, follow=True, concrete_body=False):
    """-> (bytes, body exprs, declared length or None, end-of-body offset, follow-up bytes)"""
    head = K(b'POST /a HTTP/1.1\r\nHost: h\r\n')
    body = []
    wire_body = []
    declared = None
    if framing == 'none':
        pass
    elif framing.startswith('cl'):
        n = {'cl0': 0, 'cl-small': [1, 3][ctx.choose(2, 'n')], 'cl-1024': 1024, 'cl-1025': 1025}[framing]
        declared = n
        head += case_variant(ctx, b'Content-Length') + K(b': %d\r\n' % n)
        # bodies that nobody compares are concrete filler: if a defect lets them be parsed as a head, the parse stays cheap
        body = K(b'y' * n) if (concrete_body and n > 16) else sym_bytes(ctx, n)
        wire_body = body
    elif framing in ('chunked', 'chunked+cl'):
        sizes = [[3], [1, 2], [2, 1, 1], [10]][ctx.choose(4 if tier != 'quick' else 3, 'chunks')]
        style = ctx.choose(4, 'style')
        wire_body, body = chunked_body(ctx, sizes, style)
        # coding names are case-insensitive: the letter case of the value is symbolic as well
        te = case_variant(ctx, b'Transfer-Encoding') + K(b': ') + case_variant(ctx, b'chunked', 'tecase') + CRLF
        if framing == 'chunked+cl':
            cl = K(b'Content-Length: 2\r\n')
            head += (cl + te) if ctx.choose(2, 'order') else (te + cl)
        else:
            head += te
    elif framing == 'upgrade':
        pre = [b'', b'keep-alive, ', b'x,'][ctx.choose(3, 'conn-list')]
        head += K(b'Connection: ') + K(pre) + case_variant(ctx, b'upgrade') + K(b'\r\nUpgrade: x\r\n')
        body = sym_bytes(ctx, 5)
        wire_body = body
    if expect:
        head += K(b'Expect: ') + case_variant(ctx, b'100-continue') + CRLF
    head += CRLF
    data = head + wire_body
    end = len(data)
    nxt = K(b'GET /n HTTP/1.1\r\nHost: h\r\n\r\n') if (follow and framing != 'upgrade') else []
    return data + nxt, body, declared, end, len(head)


READ_PROGRAMS = [[1, 1, 1, 1, 1, 1], [2, 64], [64, 64], [1030, 8]]


def read_all(cv, ctx, cell, sizes, maxreads=12):
    """application reads with the given buffer sizes (last size repeats) until two EOFs; returns (got byte exprs, n_eof, err)"""
    got = []
    eofs = 0
    i = 0
    while eofs < 2 and i < maxreads:
        n = sizes[min(i, len(sizes) - 1)]
        r, tmp = cv.read_body(cell, n)
        i += 1
        if r is None:
            return got, eofs, 'blocked'
        if r.variant == 'Err':
            return got, eofs, 'err'
        k = concretize(ctx, r.fields[0])
        ck = conc(k)
        if ck is None:
            # symbolic count (short read): enumerate it (bounded by the buffer size)
            for cand in range(0, n + 1):
                if ctx.branch(k == cand):
                    ck = cand
                    break
        if ck == 0:
            eofs += 1
            continue
        if eofs:
            return got, eofs, 'data-after-eof'
        for j in range(ck):
            got.append(z3.simplify(z3.Select(tmp.arr, bv(j))))
    return got, eofs, None


def run(L, rep, tier, seed):
    S = Session(L, rep, seed)
    rep.assumptions += ['socket = E-stream with arbitrary short reads (symbolic byte counts); chunked trailers outside the property']
    framings = FRAMINGS

    def h(ctx):
        fr = framings[ctx.choose(len(framings), 'framing')]
        data, body, declared, end, headlen = build_request(ctx, fr, tier)
        nprog = 2 if tier == 'quick' else len(READ_PROGRAMS)
        prog = READ_PROGRAMS[ctx.choose(nprog, 'reads')] if fr not in ('none', 'cl0') else READ_PROGRAMS[1]
        short = fr in ('cl-small', 'chunked', 'upgrade') and ctx.choose(2, 'short-reads') == 1
        if fr in ('cl-1024', 'cl-1025') and prog[0] <= 64:
            prog = [512, 600]
        cv = Conv(S, ctx, data, end='eof', short_reads=short)
        sc = lambda m: {'kind': 'conversation', 'framing': fr, 'reads': prog, 'text': model_bytes(m, data[:200]).decode('latin1'),
                        'bytes_hex': model_bytes(m, data).hex() if len(data) < 400 else None}
        rq = cv.next()
        ctx.event('witness', fr)
        if rq is None or rq is PARKED:
            ctx.check_always(z3.BoolVal(False), fr + '/request-delivered', sc)
            return None
        s = cv.summary(rq)
        bl = s['body_length']
        want_bl = declared if fr.startswith('cl') else None
        okbl = (bl.variant == 'None') if want_bl is None else (bl.variant == 'Some' and conc(bl.fields[0]) == want_bl)
        ctx.check_always(z3.BoolVal(okbl), fr + '/declared-length-reported', sc)
        cell = Cell(rq)
        pos_before = cv.wire.pos
        got, eofs, err = read_all(cv, ctx, cell, prog)
        if fr == 'upgrade':
            # the rest of the connection verbatim; ends with the connection
            ok = err is None and len(got) == len(body) and eofs >= 1
            ctx.check_always(z3.BoolVal(ok), fr + '/body-length-and-eof', sc)
            if ok:
                ctx.check_always(z3.And(*[g == b for g, b in zip(got, body)]), fr + '/body-bytes', sc)
            return True
        ok = err is None and len(got) == len(body) and eofs == 2
        ctx.check_always(z3.BoolVal(ok), fr + '/body-length-and-eof', sc)
        if ok and body:
            ctx.check_always(z3.And(*[g == b for g, b in zip(got, body)]), fr + '/body-bytes', sc)
        # never consumed beyond the framed body while the application was reading it
        ctx.check_always(z3.ULE(cv.wire.pos, bv(end)), fr + '/no-read-past-the-boundary', sc)
        cv.respond(cell.v)
        r2 = cv.next()
        if r2 is PARKED:
            r2 = cv.settle()
        if r2 is not None and r2 is not PARKED:
            s2 = cv.summary(r2)
            ctx.check_always(z3.And(slice_eq_exprs(s2['url'], K(b'/n')), z3.BoolVal(isinstance(s2['method'], Enum) and s2['method'].variant == 'Get'),
                                    z3.BoolVal(len(s2['headers']) == 1)), fr + '/next-request-starts-after-body', sc)
        else:
            ctx.check_always(z3.BoolVal(False), fr + '/next-request-starts-after-body', sc)
        return True

    S.run('framing', h, witnesses=framings, max_paths=60000,
          bound='one POST with framing in %s; Content-Length in {0,1,3,1024,1025}; chunkings [3],[1,2],[2,1,1] x hex case / leading '
                'zeros / extension; application read sizes %s; socket short reads on/off; followed by one pipelined GET' % (framings, READ_PROGRAMS))
    collect_simple(S, rep, 'C03', 'framing')
