"""C20 - shutdown stops accepting but not answering; idle workers are reclaimed.   (pool part; the kernel-socket part is outside)

  worker/contract       one worker loop from the MIR against an ARBITRARY environment (thread-modular): it exits only after a
                        timed wait that timed out with the queue empty (decided under the lock); it waits untimed only while
                        the live-worker count is <= the minimum read from the MIR, otherwise for exactly the idle period
  drop/from-idle        BMC: TaskPool dropped while all workers are parked => every worker terminates (no quiescent state
                        with a live worker) and none exits while a task is queued
"""
import z3, time, os
from mirsym.values import *
from mirsym.harness import Session
from mirsym.interp import Unsupported, Interp, BoundHit, RustPanic
from mirsym import bmc
from mirsym.sync import World, TRACE, ThreadEnd, Captured
from mirsym.models import MODELS
from mirsym.report import Violation
from props import c08
from props.c08 import build_pool_model, startup_state, report_results

LEVEL = 'model_checking'
IDLE_NS = 5000 * 1000000


def worker_contract(L, rep, tier, seed, prop='C20'):
    S = Session(L, rep, seed, timeout_ms=10000)
    prog = L.prog
    f_new = c08.find_impl_fn(prog, 'TaskPool', 'new')
    models = dict(MODELS)
    models.update(TRACE)
    iters = 2 if tier == 'quick' else 3
    min_threads = [None]

    def h(ctx):
        w = World(ctx, 'w')
        w.elem_kinds = {'*': 1}
        w.elem_makers = {'*': c08.make_task}
        w.tasks_return = True
        w.max_events = 8 * iters + 4
        w.spawn_arg = None
        it = Interp(S.prog, ctx, models)
        ctx.data['interp'] = it
        w.recording = False
        w.capture_spawn = 0
        clo = None
        try:
            it.run_fn(f_new, [])
        except Captured as c:
            clo = c.value
        w.capture_spawn = None
        w.held = []
        del w.trace[:]
        w.recording = True
        exited = True
        try:
            it.call_callable(clo, [])
        except BoundHit:
            exited = False
        evs = [x[1] for x in w.trace if x[0] == 'ev']
        # --- waits: untimed iff the loaded live-worker count <= MIN ; timed waits last exactly the idle period
        last_load = None
        ok_wait = []
        for e in evs:
            if e.kind == 'a_load' and e.obj == 'atomic0':
                last_load = e.res['val']
            if e.kind in ('wait', 'wait_timeout'):
                if last_load is None:
                    ok_wait.append(z3.BoolVal(False))
                    continue
                mn = bv(4)
                if e.kind == 'wait':
                    ok_wait.append(z3.ULE(last_load, mn))
                else:
                    ok_wait.append(z3.And(z3.UGT(last_load, mn), e.args[0] == bv(IDLE_NS)))
                if 'mutex0' not in e.held:
                    ok_wait.append(z3.BoolVal(False))
        sc = lambda m: {'kind': 'worker-path', 'ops': [e.kind + '(' + str(e.obj) + ')' for e in evs]}
        if ok_wait:
            ctx.event('witness', 'waits')
            ctx.check_always(z3.And(*ok_wait), 'wait-kind-follows-live-count', sc)
        if exited:
            ctx.event('witness', 'exits')
            # the exit decision: last wait was timed and timed out, and the queue was empty when looked at afterwards, lock held
            waits = [e for e in evs if e.kind in ('wait', 'wait_timeout')]
            empties = [e for e in evs if e.kind == 'q_is_empty']
            cond = z3.BoolVal(False)
            if waits and waits[-1].kind == 'wait_timeout' and empties:
                i_w = evs.index(waits[-1])
                i_e = evs.index(empties[-1])
                cond = z3.And(waits[-1].res['timed_out'], empties[-1].res['empty'], z3.BoolVal(i_e > i_w),
                              z3.BoolVal('mutex0' in empties[-1].held))
            ctx.check_always(cond, 'exits-only-after-idle-timeout-with-empty-queue', sc)
            # registrations are balanced on exit: every fetch_add has its fetch_sub (live count and idle count return to baseline)
            bal = {}
            for e in evs:
                if e.kind == 'a_fetch_add':
                    bal[e.obj] = bal.get(e.obj, 0) + 1
                if e.kind == 'a_fetch_sub':
                    bal[e.obj] = bal.get(e.obj, 0) - 1
            ctx.check_always(z3.BoolVal(all(v == 0 for v in bal.values())), 'counters-balanced-on-exit', sc)
            ctx.event('sample', {'ops': [e.kind for e in evs]})
        # --- after the pool is dropped (live count above the minimum for good, nothing queued, nobody notifies):
        #     the worker must terminate within the bound -- decided as: no such path reaches the iteration bound
        post_drop = []
        for e in evs:
            if e.kind == 'a_load' and e.obj == 'atomic0':
                post_drop.append(z3.UGT(e.res['val'], bv(4)))
            if e.kind == 'q_pop':
                post_drop.append(z3.Not(e.res['nonempty']))
            if e.kind == 'q_is_empty':
                post_drop.append(e.res['empty'])
            if e.kind == 'wait_timeout':
                post_drop.append(e.res['timed_out'])
        if not exited:
            ctx.check_always(z3.Not(z3.And(*post_drop)) if post_drop else z3.BoolVal(False), 'idle-worker-exits-once-live-count-exceeds-minimum', sc)
        return exited

    S.run('worker/contract', h, witnesses=['waits', 'exits'],
          bound='one worker thread (no initial task), <= %d loop iterations, every shared-operation result arbitrary' % iters)
    seen = set()
    for (label, sc, st, nm) in S.last_violations:
        if label in seen:
            continue
        seen.add(label)
        rep.violation(Violation(prop, None, 'worker/contract/%s violated on path %s' % (label, sc), sc, 'worker/contract/' + label))


def drop_queries(enc):
    K = enc.K
    nf = z3.Not(enc.frontier_reached())
    SK = enc.S[K]
    qs = []
    workers = [t for t in enc.threads if t.name != 'disp']
    disp = [t for t in enc.threads if t.name == 'disp'][0]
    alive_forever = []
    for k in [K]:    # stuttering is allowed, so a state reachable at any step is reachable at step K
        Sk = enc.S[k]
        qk = enc.quiescent(Sk)
        dropped = enc.at_term(disp, Sk, 'end')
        alive_forever.append(z3.And(qk, dropped, z3.Or(*[z3.And(Sk['active:' + t.name], z3.Not(enc.at_term(t, Sk, 'end'))) for t in workers])))
    qs.append(('after-drop-every-idle-worker-terminates', z3.Or(*alive_forever), [nf]))
    panics = [enc.at_term(t, enc.S[k], 'panic') for k in [K] for t in enc.threads]
    qs.append(('no-panic-in-pool-code', z3.Or(*panics), [nf]))
    qs.append(('witness/some-worker-exits', z3.Or(*[enc.at_term(t, SK, 'end') for t in workers]), [nf]))
    return qs


def run(L, rep, tier, seed):
    rep.assumptions += [
        'E-sync models as C07/C08; kernel side of shutdown (refused connections, socket-file removal) is outside the claim',
        'idle period and minimum pool size are read from the MIR (5000 ms, MIN_THREADS alloc)',
    ]
    worker_contract(L, rep, tier, seed)
    drop_effect(L, rep, tier, seed)
    dispatch_wakes_one(L, rep, tier, seed)
    if tier == 'quick' or os.environ.get('VERIF_C20_BMC') != '1':
        # the global drop-from-idle BMC (4 workers x clock) did not finish within 5 minutes per query in this sandbox; it is
        # kept as an opt-in experiment (VERIF_C20_BMC=1). The thread-modular obligations above carry the claim.
        return
    S = Session(L, rep, seed)
    K = 14 if tier == 'quick' else 18
    me = 16
    t0 = time.time()
    try:
        enc0, hooks, st, pins, sched = startup_state(S, 0, 0, me, tasks_return=True, drop_pool=True)
        enc = bmc.Encoder(enc0.threads, enc0.objects, K, cap=enc0.cap, spurious=False, hooks=hooks, symmetry=enc0.symmetry)
        enc.initial_override = st
        enc.tasks = enc0.tasks
        enc.build()
    except Unsupported as e:
        rep.inconc('drop/from-idle: unsupported construct: %s' % e)
        return
    rep.functions.update(enc0.encoded)
    qs = [(a, b, list(c) + pins) for (a, b, c) in drop_queries(enc)]
    res = bmc.solve_many(enc, qs, timeout_ms=300000, seed=seed, jobs=4)
    rep.states += sum(len(t.locs) for t in enc.threads)
    rep.transitions += len(enc.cmds)
    rep.bounds['drop/from-idle'] = {'initial_workers_from_MIR': enc0.n_init, 'K_steps_after_startup': K, 'spurious_wakeups': False,
                                    'max_events_per_worker': me, 'commands': len(enc.cmds), 'build_s': round(time.time() - t0, 1)}
    report_results(rep, 'C20', 'drop/from-idle', res, {}, ['drop', K])


def drop_effect(L, rep, tier, seed):
    """<TaskPool as Drop>::drop from the MIR: raises the live-worker count above the minimum and notifies every waiter"""
    S = Session(L, rep, seed)
    f_new = c08.find_impl_fn(L.prog, 'TaskPool', 'new')
    models = dict(MODELS)
    models.update(TRACE)

    def h(ctx):
        w = World(ctx, 'd')
        w.elem_kinds = {'*': 1}
        w.elem_makers = {'*': c08.make_task}
        w.spawn_arg = None
        it = Interp(S.prog, ctx, models)
        ctx.data['interp'] = it
        w.recording = False
        pool = it.run_fn(f_new, [])
        w.held = []
        w.recording = True
        it.drop_value(pool)
        evs = [x[1] for x in w.trace if x[0] == 'ev']
        stores = [e for e in evs if e.kind == 'a_store' and e.obj == 'atomic0']
        nall = [i for i, e in enumerate(evs) if e.kind == 'notify_all' and e.obj == 'condvar0']
        ok = z3.BoolVal(False)
        if stores and nall:
            i_s = evs.index(stores[-1])
            ok = z3.And(z3.UGT(stores[-1].args[0], bv(4 + 64)), z3.BoolVal(i_s < nall[-1]))
        ctx.event('witness', 'dropped')
        ctx.check_always(ok, 'raises-live-count-then-notifies-all', lambda m: {'kind': 'drop', 'ops': [e.kind + '(' + str(e.obj) + ')' for e in evs]})
        return True

    S.run('drop/effect', h, witnesses=['dropped'], bound='the Drop implementation of TaskPool, sequential')
    for (label, sc, st, nm) in S.last_violations[:1]:
        rep.violation(Violation('C20', None, 'drop/effect/%s violated: %s' % (label, sc), sc, 'drop/effect/' + label))


def dispatch_wakes_one(L, rep, tier, seed):
    """a queued connection wakes at most one idle worker: waking all of them would restart every surplus worker's idle period on
    each arrival, so that workers beyond the minimum never retire under light traffic (BMC on the burst-3 pool model of C08)"""
    from props.c08 import pool_queries
    S = Session(L, rep, seed)
    name, n, ndyn, K, me = 'burst3-from-idle', 3, 1, 9, 12
    try:
        enc0, hooks, st, pins, sched = startup_state(S, n, ndyn, me)
        enc = bmc.Encoder(enc0.threads, enc0.objects, K, cap=enc0.cap, spurious=True, hooks=hooks, symmetry=enc0.symmetry)
        enc.initial_override = st
        enc.tasks = enc0.tasks
        enc.use_clock = False
        enc.build()
    except Unsupported as e:
        rep.inconc('%s: unsupported construct: %s' % (name, e))
        return
    rep.functions.update(enc0.encoded)
    qs = [(a, b, list(c) + pins) for (a, b, c) in pool_queries(enc, 'kf_enqueue_without_idle_waiter', ('at-most-one-idle', 'witness'))]
    res = bmc.solve_many(enc, qs, timeout_ms=200000, seed=seed, jobs=2, extract=lambda e, m: e.replay_info(m))
    rep.bounds[name] = {'dispatches': n, 'K_steps_after_startup': K}
    report_results(rep, 'C20', name, res, {}, [name, n, ndyn, K],
                   replayer=lambda v, info: c08.replay_pool(L, v, rep, info, enc0.startup_ops, n))
