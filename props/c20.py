"""C20 - shutdown stops accepting but not answering; idle workers are reclaimed.
(what the operating system does with a closed listener / a removed socket file is outside; what tiny-http asks of it is inside)

  server-drop           <Server as Drop>::drop from the MIR on a listener bound to an arbitrary address: flag raised first, one
                        wake-up connection that arrives at the listener, UNIX socket file removed
  accept-thread         the closure Server::from_listener spawns, captured from the MIR, against an arbitrary environment:
                        ends after the first accept() that returns with the flag raised, closing listener and pool

  worker/contract       one worker loop from the MIR against an ARBITRARY environment (thread-modular): it exits only after a
                        timed wait that timed out with the queue empty (decided under the lock); it waits untimed only while
                        the live-worker count is <= the minimum read from the MIR, otherwise for exactly the idle period
  drop/from-idle        BMC: TaskPool dropped while all workers are parked => every worker terminates (no quiescent state
                        with a live worker) and none exits while a task is queued
"""
import z3, time, os
from mirsym.values import *
from mirsym.harness import Session
from mirsym.interp import Unsupported, Interp, BoundHit, RustPanic
from mirsym import bmc
from mirsym.sync import World, TRACE, ThreadEnd, Captured
from mirsym.models import MODELS, io_error
from mirsym.report import Violation
from props import c08
from props.c08 import build_pool_model, startup_state, report_results

LEVEL = 'model_checking'
IDLE_NS = 5000 * 1000000


def worker_contract(L, rep, tier, seed, prop='C20'):
    S = Session(L, rep, seed, timeout_ms=10000)
    prog = L.prog
    f_new = c08.find_impl_fn(prog, 'TaskPool', 'new')
    models = dict(MODELS)
    models.update(TRACE)
    iters = 2 if tier == 'quick' else 3
    min_threads = [None]

    def h(ctx):
        w = World(ctx, 'w')
        w.elem_kinds = {'*': 1}
        w.elem_makers = {'*': c08.make_task}
        w.tasks_return = True
        w.max_events = 8 * iters + 4
        w.spawn_arg = None
        it = Interp(S.prog, ctx, models)
        ctx.data['interp'] = it
        w.recording = False
        w.capture_spawn = 0
        clo = None
        try:
            it.run_fn(f_new, [])
        except Captured as c:
            clo = c.value
        w.capture_spawn = None
        w.held = []
        del w.trace[:]
        w.recording = True
        exited = True
        try:
            it.call_callable(clo, [])
        except BoundHit:
            exited = False
        evs = [x[1] for x in w.trace if x[0] == 'ev']
        # --- waits: untimed iff the loaded live-worker count <= MIN ; timed waits last exactly the idle period
        last_load = None
        ok_wait = []
        for e in evs:
            if e.kind == 'a_load' and e.obj == 'atomic0':
                last_load = e.res['val']
            if e.kind in ('wait', 'wait_timeout'):
                if last_load is None:
                    ok_wait.append(z3.BoolVal(False))
                    continue
                mn = bv(4)
                if e.kind == 'wait':
                    ok_wait.append(z3.ULE(last_load, mn))
                else:
                    ok_wait.append(z3.And(z3.UGT(last_load, mn), e.args[0] == bv(IDLE_NS)))
                if 'mutex0' not in e.held:
                    ok_wait.append(z3.BoolVal(False))
        sc = lambda m: {'kind': 'worker-path', 'ops': [e.kind + '(' + str(e.obj) + ')' for e in evs]}
        if ok_wait:
            ctx.event('witness', 'waits')
            ctx.check_always(z3.And(*ok_wait), 'wait-kind-follows-live-count', sc)
        if exited:
            ctx.event('witness', 'exits')
            # the exit decision: last wait was timed and timed out, and the queue was empty when looked at afterwards, lock held
            waits = [e for e in evs if e.kind in ('wait', 'wait_timeout')]
            empties = [e for e in evs if e.kind == 'q_is_empty']
            cond = z3.BoolVal(False)
            if waits and waits[-1].kind == 'wait_timeout' and empties:
                i_w = evs.index(waits[-1])
                i_e = evs.index(empties[-1])
                cond = z3.And(waits[-1].res['timed_out'], empties[-1].res['empty'], z3.BoolVal(i_e > i_w),
                              z3.BoolVal('mutex0' in empties[-1].held))
            ctx.check_always(cond, 'exits-only-after-idle-timeout-with-empty-queue', sc)
            # registrations are balanced on exit: every fetch_add has its fetch_sub (live count and idle count return to baseline)
            bal = {}
            for e in evs:
                if e.kind == 'a_fetch_add':
                    bal[e.obj] = bal.get(e.obj, 0) + 1
                if e.kind == 'a_fetch_sub':
                    bal[e.obj] = bal.get(e.obj, 0) - 1
            ctx.check_always(z3.BoolVal(all(v == 0 for v in bal.values())), 'counters-balanced-on-exit', sc)
            ctx.event('sample', {'ops': [e.kind for e in evs]})
        # --- after the pool is dropped (live count above the minimum for good, nothing queued, nobody notifies):
        #     the worker must terminate within the bound -- decided as: no such path reaches the iteration bound
        post_drop = []
        for e in evs:
            if e.kind == 'a_load' and e.obj == 'atomic0':
                post_drop.append(z3.UGT(e.res['val'], bv(4)))
            if e.kind == 'q_pop':
                post_drop.append(z3.Not(e.res['nonempty']))
            if e.kind == 'q_is_empty':
                post_drop.append(e.res['empty'])
            if e.kind == 'wait_timeout':
                post_drop.append(e.res['timed_out'])
        if not exited:
            ctx.check_always(z3.Not(z3.And(*post_drop)) if post_drop else z3.BoolVal(False), 'idle-worker-exits-once-live-count-exceeds-minimum', sc)
        return exited

    S.run('worker/contract', h, witnesses=['waits', 'exits'],
          bound='one worker thread (no initial task), <= %d loop iterations, every shared-operation result arbitrary' % iters)
    seen = set()
    for (label, sc, st, nm) in S.last_violations:
        if label in seen:
            continue
        seen.add(label)
        rep.violation(Violation(prop, None, 'worker/contract/%s violated on path %s' % (label, sc), sc, 'worker/contract/' + label))


def server_drop(L, rep, tier, seed):
    """<Server as Drop>::drop from the MIR on a server listening on an ARBITRARY address (IPv4 / IPv6 with symbolic address and
    port, or a UNIX path): the close flag is raised first, then one connection attempt is made that ARRIVES AT THE LISTENER
    (same port and family; same address, or a local address when the listener is bound to the wildcard) -- that is what wakes
    the accept thread so that it sees the flag --, and for a UNIX listener the socket file is removed; whatever the connection
    attempt and the removal return, drop does not panic."""
    from mirsym import netaddr
    S = Session(L, rep, seed)
    prog = L.prog
    cands = [f for (tr, st, me), fs in prog.traitm.items() if tr == 'Drop' and st == 'Server' and me == 'drop' for f in fs]
    if not cands:
        rep.inconc('server-drop: <Server as Drop>::drop not found in the MIR')
        return
    f_drop = cands[0]
    models = dict(MODELS)
    models.update(netaddr.NET_MODELS)

    def m_store(it, a, info):
        netaddr.log(it).append(('store', netaddr.deref(it, a[0]), a[1]))
        return unit()
    models['Atomic::store'] = m_store
    models['AtomicBool::store'] = m_store
    FAMS = ['v4', 'v6', 'unix']

    def h(ctx):
        fam = FAMS[ctx.choose(3, 'family')]
        it = S.interp(ctx, models=models)
        it.extra_consts = netaddr.NET_CONSTS
        flag = Opaque('close-flag')
        path = Opaque('listen-path')
        if fam == 'unix':
            la = Enum('ListenAddr', 'Unix', prog.variant_index('ListenAddr', 'Unix'), [Struct('UnixSocketAddr', [path])])
            lf = lip = lport = None
        else:
            lf = 4 if fam == 'v4' else 6
            lip = ctx.fresh_bv('listen_ip', 32 if lf == 4 else 128)
            lport = ctx.fresh_bv('listen_port', 16)
            ctx.add(lport != 0)
            if lf == 4:
                # addresses a listener can be bound to: the wildcard or a unicast address (first octet not 0)
                ctx.add(z3.Or(lip == 0, z3.Extract(31, 24, lip) != 0))
            la = Enum('ListenAddr', 'IP', prog.variant_index('ListenAddr', 'IP'), [netaddr.sockaddr(lf, lip, lport)])
        from mirsym.models import ArcObj
        vals = {'close': ArcObj(flag), 'messages': ArcObj(Opaque('messages')), 'listening_addr': la}
        names = prog.struct_field_names('Server')
        if sorted(names) != sorted(vals):
            raise Unsupported('Server has fields %r: the harness knows %r' % (names, sorted(vals)))
        server = Struct('Server', [vals[n] for n in names])
        cell = Cell(server)
        ctx.event('witness', 'drop-' + fam)
        sc = lambda m: {'kind': 'server-drop', 'family': fam,
                        'listening': ({'ip': hex(m.eval(lip, True).as_long()), 'port': m.eval(lport, True).as_long()} if lf else 'unix path'),
                        'calls': [render(m, e) for e in netaddr.log(it)]}

        def render(m, e):
            if e[0] == 'connect':
                return 'connect(%s ip=%s port=%d)' % ('v4' if e[1] == 4 else 'v6', hex(m.eval(e[2], True).as_long()), m.eval(e[3], True).as_long())
            return e[0]
        try:
            it.run_fn(f_drop, [Ref(cell, (), True)])
        except RustPanic as p:
            ctx.check_always(z3.BoolVal(False), 'drop-does-not-panic', lambda m: dict(sc(m), panic=p.msg[:100]))
            return None
        lg = netaddr.log(it)
        stores = [i for i, e in enumerate(lg) if e[0] == 'store' and e[1] is flag]
        conns = [i for i, e in enumerate(lg) if e[0] in ('connect', 'connect_unix')]
        ok_flag = z3.BoolVal(False)
        if stores:
            ok_flag = z3.And(lg[stores[0]][2] if z3.is_bool(lg[stores[0]][2]) else lg[stores[0]][2] != 0,
                             z3.BoolVal(not conns or stores[0] < conns[0]))
        ctx.check_always(ok_flag, 'close-flag-raised-before-the-wake-up-connection', sc)
        if fam == 'unix':
            arrives = z3.BoolVal(any(lg[i][0] == 'connect_unix' and lg[i][1] is path for i in conns))
            removed = z3.BoolVal(any(e[0] == 'remove_file' and e[1] is path for e in lg))
            ctx.check_always(removed, 'unix-socket-file-removed', sc)
        else:
            arrives = z3.Or(*[netaddr.reaches(lf, lip, lport, lg[i][1], lg[i][2], lg[i][3]) for i in conns if lg[i][0] == 'connect']) \
                if conns else z3.BoolVal(False)
        ctx.check_always(arrives, 'wake-up-connection-arrives-at-the-listener', sc)
        return True

    S.run('server-drop', h, witnesses=['drop-v4', 'drop-v6', 'drop-unix'],
          bound='<Server as Drop>::drop, sequential; listener bound to any IPv4 / IPv6 address and non-zero port (symbolic, full width) '
                'or to a UNIX path; connect / remove_file succeed or fail')
    seen = set()
    for (label, sc, st, nm) in S.last_violations:
        if label in seen:
            continue
        seen.add(label)
        rep.violation(Violation('C20', None, 'server-drop/%s violated: %s' % (label, sc), sc, 'server-drop/' + label))


class _Logged(Opaque):
    """an environment object whose destruction is an observable of the accept thread (listener closed, pool dropped)"""

    def __init__(self, kind, log):
        Opaque.__init__(self, kind)
        self.log = log

    def on_drop(self, it, v=None):
        self.log.append(('dropped', self.kind))


def accept_loop(L, rep, tier, seed, prop='C20', options_only=False):
    """the accept thread (the closure Server::from_listener hands to thread::spawn, captured from the MIR) against an ARBITRARY
    environment: the close flag is raised by the environment at any moment (before a flag test, or while the thread sits in
    accept()); every accept() returns a connection or an error. Obligations: at most ONE accept() returns after the flag was
    raised (the one the wake-up connection of Server::drop ends; another call would block for ever and the listener would stay
    open), the thread then terminates, and when it terminates the
    listener is closed (new connection attempts are refused from then on) and the pool is dropped (idle workers retire, C20
    worker/contract); every accepted connection is handed to the pool exactly once; an accept error is reported to the
    application queue and ends the thread."""
    from mirsym import netaddr, env
    from mirsym.sync import SeqWorld, SEQ
    from mirsym.interp import Blocked
    S = Session(L, rep, seed)
    prog = L.prog
    f_from = c08.find_impl_fn(prog, 'Server', 'from_listener')
    models = dict(MODELS)
    models.update(SEQ)
    models.update(netaddr.NET_MODELS)
    nmax = 3 if tier == 'quick' else 5

    def h(ctx):
        world = SeqWorld(ctx)
        log = []
        sockopts = []
        ctx.data['sockopt_log'] = sockopts
        st = {'raised': False, 'accepts_after_raise': 0, 'accepts': 0, 'flag': None}

        def maybe_raise(it, where):
            if not st['raised'] and ctx.choose(2, 'flag-raised-' + where) == 1:
                st['raised'] = True
                log.append(('flag_raised', where))

        def m_spawn(it, a, info):
            raise Captured(a[0])

        def m_load(it, a, info):
            o = netaddr.deref(it, a[0])
            if st['flag'] is None or o is st['flag']:
                st['flag'] = o
                maybe_raise(it, 'before-test')
                log.append(('test', st['raised']))
                return z3.BoolVal(st['raised'])
            return o.val

        unix = ctx.choose(2, 'unix-listener') == 1

        def m_local_addr(it, a, info):
            if unix:
                return Ok(Struct('UnixSocketAddr', [Opaque('listen-path')]))
            return Ok(netaddr.sockaddr(4, ctx.fresh_bv('listen_ip', 32), ctx.fresh_bv('listen_port', 16)))

        def m_accept(it, a, info):
            st['accepts'] += 1
            if st['accepts'] > nmax:
                raise BoundHit('accept calls')
            log.append(('accept',))
            maybe_raise(it, 'before-or-during-accept')
            if st['raised']:
                # this call returns after the flag was raised: in reality only ONE such return is guaranteed (the wake-up
                # connection Server::drop makes); a second call would block for ever
                st['accepts_after_raise'] += 1
            if ctx.choose(2, 'accept-result') == 1:
                log.append(('accept_err',))
                return Err(io_error('ConnectionRefused'))
            from mirsym.harness import buf_from_exprs
            eb = buf_from_exprs([], "const")
            wire = env.Wire(ctx, eb.arr, eb.len, eb.maxlen, end="block")
            wire.unix = unix
            sock = env.SockObj(wire, 'UnixStream' if unix else 'TcpStream')
            log.append(('accepted', st['accepts']))
            peer = Struct('UnixSocketAddr', [None]) if unix else netaddr.sockaddr(4, ctx.fresh_bv('peer_ip', 32), ctx.fresh_bv('peer_port', 16))
            return Ok(Struct('(tuple)', [sock, peer]))

        def pool_new(it, args, f):
            return _Logged('TaskPool', log)

        def pool_spawn(it, args, f):
            log.append(('dispatched', st['accepts']))
            return unit()
        lm = dict(models)
        lm.update({'thread::spawn': m_spawn, 'spawn': m_spawn, 'Atomic::load': m_load, 'AtomicBool::load': m_load,
                   'TcpListener::local_addr': m_local_addr, 'TcpListener::accept': m_accept,
                   'UnixListener::local_addr': m_local_addr, 'UnixListener::accept': m_accept})
        it = Interp(prog, ctx, lm, {'TaskPool::new': pool_new, 'TaskPool::spawn': pool_spawn})
        it.extra_consts = netaddr.NET_CONSTS
        ctx.data['interp'] = it
        lv = 'Unix' if unix else 'Tcp'
        listener = Enum('Listener', lv, prog.variant_index('Listener', lv), [_Logged('TcpListener', log)])
        clo = None
        try:
            it.run_fn(f_from, [listener, NONE()])
        except Captured as c:
            clo = c.value
        if clo is None:
            raise Unsupported('Server::from_listener starts no thread')
        del log[:]
        sc = lambda m: {'kind': 'accept-thread', 'events': [' '.join(str(x) for x in e) for e in log]}
        ended = False
        try:
            it.call_callable(clo, [])       # FnOnce: the body itself drops what it captured (listener, flag, queue)
            ended = True
        except BoundHit:
            pass
        except RustPanic as p:
            ctx.check_always(z3.BoolVal(False), 'accept-thread-does-not-panic', lambda m: dict(sc(m), panic=p.msg[:100]))
            return None
        ctx.event('witness', 'ended' if ended else 'still-accepting')
        if options_only:
            # C13: which options does the server set on the sockets it accepts?  (a read timeout makes pauses observable)
            ctx.event('sample', {'accepted_socket_options': sorted(set(sockopts))})
            return True
        if st['raised'] and ended:
            ctx.event('witness', 'ended-after-flag')
        ctx.check_always(z3.BoolVal(st['accepts_after_raise'] <= 1), 'no-second-accept-after-one-returned-with-the-flag-raised', sc)
        if not ended:
            # the bound on accept calls was reached: fine as long as the flag was not raised before the last two of them
            return True
        dropped = [e[1] for e in log if e[0] == 'dropped']
        ctx.check_always(z3.BoolVal('TcpListener' in dropped), 'listener-closed-when-the-thread-ends', sc)
        ctx.check_always(z3.BoolVal('TaskPool' in dropped), 'pool-dropped-when-the-thread-ends', sc)
        acc = [e[1] for e in log if e[0] == 'accepted']
        disp = [e[1] for e in log if e[0] == 'dispatched']
        ctx.check_always(z3.BoolVal(acc == disp), 'every-accepted-connection-is-dispatched-once', sc)
        err = any(e[0] == 'accept_err' for e in log)
        ctx.check_always(z3.BoolVal(st['raised'] or err), 'thread-ends-only-on-flag-or-accept-error', sc)
        return True

    S.run('accept-thread' if not options_only else 'socket-setup', h, witnesses=['ended', 'ended-after-flag', 'still-accepting'] if not options_only else ['ended'],
          bound='the accept-thread closure of Server::from_listener (TCP or UNIX listener, no TLS), <= %d accept() calls, each returning a '
                'connection or an error; the close flag raised at an arbitrary point' % nmax)
    seen = set()
    for (label, sc, st_, nm) in S.last_violations:
        if label in seen:
            continue
        seen.add(label)
        rep.violation(Violation(prop, None, 'accept-thread/%s violated: %s' % (label, sc), sc, 'accept-thread/' + label))


def drop_queries(enc):
    K = enc.K
    nf = z3.Not(enc.frontier_reached())
    SK = enc.S[K]
    qs = []
    workers = [t for t in enc.threads if t.name != 'disp']
    disp = [t for t in enc.threads if t.name == 'disp'][0]
    alive_forever = []
    for k in [K]:    # stuttering is allowed, so a state reachable at any step is reachable at step K
        Sk = enc.S[k]
        qk = enc.quiescent(Sk)
        dropped = enc.at_term(disp, Sk, 'end')
        alive_forever.append(z3.And(qk, dropped, z3.Or(*[z3.And(Sk['active:' + t.name], z3.Not(enc.at_term(t, Sk, 'end'))) for t in workers])))
    qs.append(('after-drop-every-idle-worker-terminates', z3.Or(*alive_forever), [nf]))
    panics = [enc.at_term(t, enc.S[k], 'panic') for k in [K] for t in enc.threads]
    qs.append(('no-panic-in-pool-code', z3.Or(*panics), [nf]))
    qs.append(('witness/some-worker-exits', z3.Or(*[enc.at_term(t, SK, 'end') for t in workers]), [nf]))
    return qs


def run(L, rep, tier, seed):
    rep.assumptions += [
        'E-sync models as C07/C08; kernel side of shutdown (refused connections, socket-file removal) is outside the claim',
        'idle period and minimum pool size are read from the MIR (5000 ms, MIN_THREADS alloc)',
    ]
    worker_contract(L, rep, tier, seed)
    drop_effect(L, rep, tier, seed)
    dispatch_wakes_one(L, rep, tier, seed)
    server_drop(L, rep, tier, seed)
    accept_loop(L, rep, tier, seed)
    if tier == 'quick' or os.environ.get('VERIF_C20_BMC') != '1':
        # the global drop-from-idle BMC (4 workers x clock) did not finish within 5 minutes per query in this sandbox; it is
        # kept as an opt-in experiment (VERIF_C20_BMC=1). The thread-modular obligations above carry the claim.
        return
    S = Session(L, rep, seed)
    K = 14 if tier == 'quick' else 18
    me = 16
    t0 = time.time()
    try:
        enc0, hooks, st, pins, sched = startup_state(S, 0, 0, me, tasks_return=True, drop_pool=True)
        enc = bmc.Encoder(enc0.threads, enc0.objects, K, cap=enc0.cap, spurious=False, hooks=hooks, symmetry=enc0.symmetry)
        enc.initial_override = st
        enc.tasks = enc0.tasks
        enc.build()
    except Unsupported as e:
        rep.inconc('drop/from-idle: unsupported construct: %s' % e)
        return
    rep.functions.update(enc0.encoded)
    qs = [(a, b, list(c) + pins) for (a, b, c) in drop_queries(enc)]
    res = bmc.solve_many(enc, qs, timeout_ms=300000, seed=seed, jobs=4)
    rep.states += sum(len(t.locs) for t in enc.threads)
    rep.transitions += len(enc.cmds)
    rep.bounds['drop/from-idle'] = {'initial_workers_from_MIR': enc0.n_init, 'K_steps_after_startup': K, 'spurious_wakeups': False,
                                    'max_events_per_worker': me, 'commands': len(enc.cmds), 'build_s': round(time.time() - t0, 1)}
    report_results(rep, 'C20', 'drop/from-idle', res, {}, ['drop', K])


def drop_effect(L, rep, tier, seed):
    """<TaskPool as Drop>::drop from the MIR: raises the live-worker count above the minimum and notifies every waiter"""
    S = Session(L, rep, seed)
    f_new = c08.find_impl_fn(L.prog, 'TaskPool', 'new')
    models = dict(MODELS)
    models.update(TRACE)

    def h(ctx):
        w = World(ctx, 'd')
        w.elem_kinds = {'*': 1}
        w.elem_makers = {'*': c08.make_task}
        w.spawn_arg = None
        it = Interp(S.prog, ctx, models)
        ctx.data['interp'] = it
        w.recording = False
        pool = it.run_fn(f_new, [])
        w.held = []
        w.recording = True
        it.drop_value(pool)
        evs = [x[1] for x in w.trace if x[0] == 'ev']
        stores = [e for e in evs if e.kind == 'a_store' and e.obj == 'atomic0']
        nall = [i for i, e in enumerate(evs) if e.kind == 'notify_all' and e.obj == 'condvar0']
        ok = z3.BoolVal(False)
        if stores and nall:
            i_s = evs.index(stores[-1])
            ok = z3.And(z3.UGT(stores[-1].args[0], bv(4 + 64)), z3.BoolVal(i_s < nall[-1]))
        ctx.event('witness', 'dropped')
        ctx.check_always(ok, 'raises-live-count-then-notifies-all', lambda m: {'kind': 'drop', 'ops': [e.kind + '(' + str(e.obj) + ')' for e in evs]})
        return True

    S.run('drop/effect', h, witnesses=['dropped'], bound='the Drop implementation of TaskPool, sequential')
    for (label, sc, st, nm) in S.last_violations[:1]:
        rep.violation(Violation('C20', None, 'drop/effect/%s violated: %s' % (label, sc), sc, 'drop/effect/' + label))


def dispatch_wakes_one(L, rep, tier, seed):
    """a queued connection wakes at most one idle worker: waking all of them would restart every surplus worker's idle period on
    each arrival, so that workers beyond the minimum never retire under light traffic (BMC on the burst-3 pool model of C08)"""
    from props.c08 import pool_queries
    S = Session(L, rep, seed)
    name, n, ndyn, K, me = 'burst3-from-idle', 3, 1, 9, 12
    try:
        enc0, hooks, st, pins, sched = startup_state(S, n, ndyn, me)
        enc = bmc.Encoder(enc0.threads, enc0.objects, K, cap=enc0.cap, spurious=True, hooks=hooks, symmetry=enc0.symmetry)
        enc.initial_override = st
        enc.tasks = enc0.tasks
        enc.use_clock = False
        enc.build()
    except Unsupported as e:
        rep.inconc('%s: unsupported construct: %s' % (name, e))
        return
    rep.functions.update(enc0.encoded)
    qs = [(a, b, list(c) + pins) for (a, b, c) in pool_queries(enc, 'kf_enqueue_without_idle_waiter', ('at-most-one-idle', 'witness'))]
    res = bmc.solve_many(enc, qs, timeout_ms=200000, seed=seed, jobs=2, extract=lambda e, m: e.replay_info(m))
    rep.bounds[name] = {'dispatches': n, 'K_steps_after_startup': K}
    report_results(rep, 'C20', name, res, {}, [name, n, ndyn, K],
                   replayer=lambda v, info: c08.replay_pool(L, v, rep, info, enc0.startup_ops, n))
