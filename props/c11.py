"""C11 - pipelined requests are read ahead without waiting for earlier answers.

ClientConnection::next, new_request (buffering of bodies <= 1024 bytes, reader release), SequentialReader and FusedReader run
from the MIR. The connection thread is a logical thread; handlers never act unless the scenario says so.
"""
import z3
from mirsym.values import *
from mirsym.harness import *
from mirsym.interp import RustPanic, Blocked, Unsupported
from mirsym.report import Violation
from props.connlib import *
from props.c02 import collect_simple
from props.c03 import sym_bytes, chunked_body

LEVEL = 'model_checking'
SMALL = [0, 3, 1024]
BLOCKERS = ['cl-1025', 'chunked', 'expect-small']
RELEASE = ['read-to-eof', 'respond', 'drop']


def req(ctx, i, kind):
    head = K(b'POST /%d HTTP/1.1\r\nHost: h\r\n' % i)
    if kind == 'chunked':
        wire, body = chunked_body(ctx, [3], 0)
        return head + K(b'Transfer-Encoding: chunked\r\n\r\n') + wire, body
    if kind == 'expect-small':
        body = sym_bytes(ctx, 3)
        return head + K(b'Content-Length: 3\r\nExpect: 100-continue\r\n\r\n') + body, body
    n = 1025 if kind == 'cl-1025' else kind
    body = sym_bytes(ctx, n)
    return head + K(b'Content-Length: %d\r\n\r\n' % n) + body, body


def run(L, rep, tier, seed):
    S = Session(L, rep, seed)
    rep.assumptions += ['handlers are never scheduled unless the scenario performs their action; the connection thread is a logical thread that parks on the reader hand-over']
    kmax = 3 if tier == 'quick' else 4     # pipelines of 5 (first thorough tier): 63 min before small bodies in pieces were added, not finished in 90 min after

    def h(ctx):
        scen = ctx.choose(2, 'scenario')
        k = 2 + ctx.choose(kmax - 1, 'k')
        kinds = [SMALL[ctx.choose(len(SMALL), 'size')] for _ in range(k)]
        p = None
        if scen == 1:
            p = ctx.choose(k - 1, 'blocker-position')
            kinds[p] = BLOCKERS[ctx.choose(len(BLOCKERS), 'blocker')]
            rel = RELEASE[ctx.choose(len(RELEASE), 'release')]
        data = []
        bodies = []
        for i, kd in enumerate(kinds):
            d, b = req(ctx, i, kd)
            data += d
            bodies.append(b)
        # the bytes may arrive in any segmentation: a small body that comes in pieces is still read ahead (buffered), it must not
        # turn into a body the application has to read before the successor is delivered
        seg = 'choose' if (scen == 0 and k <= 3 and any(kd in (3, 1024) for kd in kinds) and ctx.choose(2, 'segmented') == 1) else False
        cv = Conv(S, ctx, data, end='eof', short_reads=seg)
        sc = {'kind': 'pipeline', 'bodies': [str(x) for x in kinds], 'blocker': p, 'segmented': bool(seg)}
        ctx.event('witness', 'all-small' if scen == 0 else 'blocker')
        got = []
        parked_at = None
        for i in range(k):
            r = cv.next()
            if r is PARKED:
                parked_at = i
                break
            if r is None:
                break
            got.append(r)
        if scen == 0:
            ctx.check_always(z3.BoolVal(len(got) == k and parked_at is None and cv.blocked is None),
                             'every-request-available-while-none-is-answered', lambda m: dict(sc, delivered=len(got), parked_at=parked_at))
            return True
        # a large / chunked / expecting body at position p: requests 0..p are delivered, then the connection thread waits
        ctx.check_always(z3.BoolVal(len(got) == p + 1 and parked_at == p + 1 and cv.blocked is None),
                         'successor-waits-exactly-for-the-unread-body', lambda m: dict(sc, delivered=len(got), parked_at=parked_at))
        if len(got) != p + 1 or parked_at != p + 1:
            return None
        cell = Cell(got[p])
        ctx.event('witness', rel)
        if rel != 'read-to-eof' or kinds[p] == 'expect-small':
            # answering / dropping request p writes a response: the earlier ones are answered first (in order)
            for q in range(p):
                cv.respond(got[q])
        if rel == 'read-to-eof':
            for j in range(6):
                r, tmp = cv.read_body(cell, 600)
                if r is None or r.variant == 'Err' or conc(concretize(ctx, r.fields[0])) == 0:
                    break
        elif rel == 'respond':
            cv.respond(cell.v)
        else:
            cv.drop(cell.v)
        rest = []
        r = cv.resume()
        while r is not None and r is not PARKED:
            rest.append(r)
            r = cv.next()
        ok = len(rest) == k - p - 1
        ctx.check_always(z3.BoolVal(ok and cv.blocked is None), 'successors-delivered-once-the-body-is-done', lambda m: dict(sc, release=rel, delivered_after=len(rest)))
        if ok and rest:
            ctx.check_always(slice_eq_exprs(cv.summary(rest[0])['url'], K(b'/%d' % (p + 1))), 'successor-is-the-next-request', lambda m: sc)
        return True

    S.run('read-ahead', h, witnesses=['all-small', 'blocker'] + RELEASE, max_paths=60000,
          bound='pipelines of 2..%d requests with bodies of 0/3/1024 bytes; one request with a 1025-byte, chunked or expecting body at any '
                'position but the last, released by reading to EOF / answering / dropping' % kmax)
    collect_simple(S, rep, 'C11', 'read-ahead')
