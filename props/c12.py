"""C12 - connection persistence is decided correctly and the connection closes in order.

ClientConnection::next (decision), the drop glue of ClientConnection / SequentialWriter / RefinedTcpStream (shutdown calls)
and Request::respond run from the MIR; shutdowns and writes are observed in the socket model's log.
"""
import z3
from mirsym.values import *
from mirsym.harness import *
from mirsym.report import Violation
from props.connlib import *
from props.c02 import collect_simple, validate_samples

LEVEL = 'model_checking'

TOKENS = ['close', 'keep-alive', 'upgrade', 'other']
LISTS = [[], ['close'], ['keep-alive'], ['upgrade'], ['other'], ['other', 'close'], ['keep-alive', 'other'], ['close', 'keep-alive'],
         ['other', 'keep-alive', 'other']]


def conn_value(ctx, toks):
    out = []
    for i, t in enumerate(toks):
        if i:
            out += K(b',') + (K(b' ') if ctx.choose(2, 'sp') else [])
        if t == 'other':
            # a token that contains none of close / upgrade / keep-alive as a substring (scoping decision, DESIGN §5 C12)
            w = sym_token(ctx, 3, 'tok')
            for b in w:
                ctx.add(z3.And(lower(b) != ord('c'), lower(b) != ord('u'), lower(b) != ord('k')))
            out += w
        else:
            out += case_variant(ctx, t.encode())
    return out


def run(L, rep, tier, seed):
    S = Session(L, rep, seed)
    rep.assumptions += ['"other" Connection tokens contain none of close/upgrade/keep-alive as substrings (the code matches substrings; scoping decision)',
                        'BufReader is modelled without read-ahead, so "no further byte is read" is checked at the socket']

    def h(ctx):
        ver = ctx.choose(2, 'version')
        toks = LISTS[ctx.choose(len(LISTS), 'list')]
        pos = ctx.choose(2, 'position')
        late = ctx.choose(2, 'answer-late') == 1
        a = K(b'GET /a HTTP/1.' + (b'1' if ver else b'0') + b'\r\nHost: h\r\n')
        if toks:
            a += case_variant(ctx, b'Connection') + K(b': ') + conn_value(ctx, toks) + CRLF
        a += CRLF
        pre = K(b'GET /p HTTP/1.1\r\nHost: h\r\n\r\n') if pos == 1 else []
        b = K(b'GET /b HTTP/1.1\r\nHost: h\r\n\r\n')
        data = pre + a + b
        last = ('close' in toks) or ('upgrade' in toks) or (ver == 0 and 'keep-alive' not in toks)
        cv = Conv(S, ctx, data, end='eof')
        sc = lambda m: {'kind': 'conversation', 'version': '1.%d' % ver, 'connection': toks, 'text': model_bytes(m, data).decode('latin1'),
                        'bytes_hex': model_bytes(m, data).hex()}
        ctx.event('witness', 'last' if last else 'persistent')
        held = []
        reqs = []
        for i in range(4):
            r = cv.next()
            if r is None or r is PARKED:
                break
            reqs.append(r)
            if late:
                held.append(r)
            else:
                cv.respond(r)
        urls = [cv.summary(r)['url'].concrete() for r in reqs]
        want = ([b'/p'] if pos else []) + [b'/a'] + ([] if last else [b'/b'])
        if 'upgrade' in toks:
            # the upgraded request owns the rest of the stream: only the decision (no further request) is checked here
            pass
        ctx.check_always(z3.BoolVal(urls == want), 'requests-delivered-per-persistence-rule', sc)
        if not late and 'upgrade' not in toks:
            m0 = ctx.model()
            if m0 is not None:
                ctx.event('sample', dict(sc(m0), mode='respond_all', predicted={'urls': [u.decode('latin1') for u in urls if u is not None],
                                                                               'codes': [200] * len(urls), 'eof': True}))
        if last and urls == want:
            ctx.check_always(cv.wire.pos == bv(len(pre + a)), 'no-byte-read-after-the-last-request', sc)
        # the connection task ends: ClientConnection dropped; responses possibly still pending
        cv.close()
        log_before = list(cv.wire.log)
        wr_shut_early = any(e[0] == 'shutdown' and e[1] in ('Write', 'Both') for e in log_before)
        if held:
            ctx.check_always(z3.BoolVal(not wr_shut_early), 'sending-side-stays-open-while-responses-are-pending', sc)
        for r in held:
            cv.respond(r)
        cv.finish_close()
        log = cv.wire.log
        idx_w = [i for i, e in enumerate(log) if e[0] == 'w']
        idx_s = [i for i, e in enumerate(log) if e[0] == 'shutdown' and e[1] in ('Write', 'Both')]
        rs = cv.responses() or []
        codes = [r.get('status') for r in rs]
        ctx.check_always(z3.BoolVal(codes == [200] * len(want)), 'every-received-request-answered-in-order', sc)
        ok = len(idx_s) == 1 and (not idx_w or idx_s[0] > idx_w[-1])
        ctx.check_always(z3.BoolVal(ok), 'sending-side-closed-once-after-the-last-response', sc)
        rd = [e for e in log if e[0] == 'shutdown' and e[1] in ('Read', 'Both')]
        ctx.check_always(z3.BoolVal(len(rd) >= 1), 'receiving-side-closed-when-the-connection-task-ends', sc)
        ctx.check_always(z3.BoolVal(cv.blocked is None), 'nothing-blocks', sc)
        return True

    S.run('persistence', h, witnesses=['last', 'persistent'], max_paths=60000,
          bound='versions 1.0/1.1 x Connection token lists %s (any letter case, optional SP after commas, symbolic "other" tokens) x '
                'pipeline position 0/1 x responses sent immediately / after the connection task ended; client half-closes after its last byte' % LISTS)
    collect_simple(S, rep, 'C12', 'persistence')
    validate_samples(S, rep, 'persistence')
