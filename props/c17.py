"""C17 - unblock releases exactly one receiver; timed / non-blocking receives keep their bounds.

Same BMC model as C07 (MIR of util/messages_queue.rs) plus threads calling unblock(); the clock is symbolic, so the
lower bound of recv_timeout is an arithmetic question for the solver.
"""
import z3
from mirsym.values import *
from mirsym import bmc
from props import c07
from props.c07 import run_configs, queue_has_elem, id_in_queue

LEVEL = 'model_checking'


def tokens_in_queue(enc, Sk, q='queue0'):
    tot = z3.BitVecVal(0, 4)
    for i in range(enc.cap):
        tot = tot + z3.If(z3.And(z3.UGT(Sk['q:%s:len' % q], i), Sk['q:%s:k%d' % (q, i)] == 1), z3.BitVecVal(1, 4), z3.BitVecVal(0, 4))
    return tot


def c17_queries(enc):
    K = enc.K
    nf = z3.Not(enc.frontier_reached())
    SK = enc.S[K]
    qs = []
    # (1) a blocking receive returns empty-handed only because it consumed a token
    qs.append(('blocking-recv-empty-only-on-token', SK['pop_none_without_token'], [nf]))
    # (2) conservation: tokens consumed + tokens queued == unblock calls done, at every step
    cons = [enc.S[k]['tokens_popped'] + tokens_in_queue(enc, enc.S[k]) != enc.S[k]['unblocks_done'] for k in [K]]
    qs.append(('token-conservation', z3.Or(*cons), [nf]))
    # (3) tokens never remove / duplicate / reorder requests
    dup = z3.Or(*[z3.UGE(SK['dcount:%d' % i], 2) for i in enc.ids] + [SK['bad_payload']])
    qs.append(('requests-not-duplicated', dup, [nf]))
    lost = []
    stuck = []
    for k in [K]:    # stuttering is allowed, so a state reachable at any step is reachable at step K
        Sk = enc.S[k]
        qk = enc.quiescent(Sk)
        for i in enc.ids:
            lost.append(z3.And(qk, Sk['pushed:%d' % i], Sk['dcount:%d' % i] == 0, z3.Not(id_in_queue(enc, Sk, i))))
        parkedpop = z3.Or(*[enc.parked_at(th, Sk, lambda ev: ev.kind == 'wait') for th in enc.threads])
        stuck.append(z3.And(qk, z3.UGT(Sk['q:queue0:len'], 0), parkedpop))
    qs.append(('requests-not-discarded', z3.Or(*lost), [nf]))
    qs.append(('requests-not-reordered', SK['bad_order'], [nf]))
    # (4) n unblocks release n receivers: no quiescent state with a token (or request) queued and a receiver still blocked
    qs.append(('unblock-reaches-a-blocked-receiver/other-than-known', z3.Or(*stuck), [nf, z3.Not(SK['kf_consumed'])]))
    qs.append(('unblock-reaches-a-blocked-receiver/known-finding-still-present', z3.Or(*stuck), [nf, SK['kf_consumed']]))
    qs.append(('witness/token-released-a-receiver', z3.UGT(SK['tokens_popped'], 0), [nf]))
    qs.append(('witness/timed-receive-returns-empty', z3.UGT(SK['none_results'], 0), [nf]))
    return qs


CONFIGS = {
    'quick': [('1u-1p1m-2c1r', 1, 1, 2, 1, 1, 9, ('pop', 'try_pop', 'pop_timeout'), 10),
              ('1u-0p-2c1r', 0, 0, 2, 1, 1, 7, ('pop', 'pop_timeout'), 10)],
    # larger configurations (K = 11/12, two unblocks, three receivers) and four waits per timed call were tried: z3 / cvc5 returned
    # unknown within the per-query caps on a loaded machine (exit 2); the thorough tier keeps the decided bounds and adds one
    # configuration with three receivers and one unblock
    'thorough': [('1u-1p1m-2c1r', 1, 1, 2, 1, 1, 9, ('pop', 'try_pop', 'pop_timeout'), 10),
                 ('1u-0p-2c1r', 0, 0, 2, 1, 1, 7, ('pop', 'pop_timeout'), 10),
                 ('1u-0p-3c1r', 0, 0, 3, 1, 1, 8, ('pop', 'pop_timeout'), 10)],
}
KNOWN = {'unblock-reaches-a-blocked-receiver/known-finding-still-present': 'pop-timeout-consumes-notify'}


def run(L, rep, tier, seed):
    run_configs(L, rep, tier, seed, 'C17', CONFIGS[tier], c17_queries, KNOWN, timing=False)
    timing_bounds(L, rep, tier, seed)
    c07.single_call_contracts(L, rep, tier, seed, 'C17')
    # try_recv never blocks: structural check on the unfolded MIR of try_pop (no park / receive operation at all)
    from mirsym.harness import Session
    from mirsym.sync import World
    S = Session(L, rep, seed)
    f_new = c07.find_impl_fn(L.prog, 'MessagesQueue', 'with_capacity')
    f_try = c07.find_impl_fn(L.prog, 'MessagesQueue', 'try_pop')

    def prog(it, w):
        w.recording = False
        mq = it.run_fn(f_new, [bv(8)])
        w.recording = True
        it.run_fn(f_try, [Ref(mq.cell)])
    tree = bmc.unfold(S, 'try', prog, max_events=10, elem_kinds={'*': 2}, elem_makers={'*': c07.make_control})
    blocking = [n.ev.kind for n in tree.nodes if n.kind == 'ev' and n.ev.kind in ('wait', 'wait_timeout', 'recv')]
    unbounded = tree.terms.get('frontier', 0)
    rep.obligation('try_pop-has-no-blocking-operation', 'unsat' if not blocking and not unbounded else 'sat',
                   ops=sorted(set(n.ev.kind for n in tree.nodes if n.kind == 'ev')), paths=tree.n_paths)
    if blocking or unbounded:
        from mirsym.report import Violation
        rep.violation(Violation('C17', None, 'try_pop contains a blocking operation or an unbounded loop: %s' % (blocking or 'loop'),
                                {'kind': 'structural', 'ops': blocking}, 'try_pop-has-no-blocking-operation'))


def timing_bounds(L, rep, tier, seed):
    """recv_timeout bounds, thread-modularly: one pop_timeout(T) call is executed from the MIR with every result of a
    shared operation left arbitrary (queue contents after each wake, notifications, spurious wake-ups), i.e. against ANY
    environment of other threads. Clock reads are symbolic and non-decreasing; Condvar::wait_timeout's contract links
    them: timed_out => at least `dur` passed; it returns at most `dur + LAT` after it was called."""
    from mirsym.harness import Session
    from mirsym.sync import World, TRACE, ThreadEnd
    from mirsym.models import MODELS, duration_ns
    from mirsym.interp import Interp, RustPanic, BoundHit
    from mirsym.report import Violation
    S = Session(L, rep, seed, timeout_ms=4000)
    f_new = c07.find_impl_fn(L.prog, 'MessagesQueue', 'with_capacity')
    f_pt = c07.find_impl_fn(L.prog, 'MessagesQueue', 'pop_timeout')
    models = dict(MODELS)
    models.update(TRACE)
    maxw = 3        # four waits per call (tried in the thorough tier): solver unknown on the lower bound
    MS = 1000000

    def h(ctx):
        w = World(ctx, 'r')
        w.elem_kinds = {'*': 2}
        w.elem_makers = {'*': c07.make_control}
        w.max_events = 4 + 4 * maxw
        it = Interp(S.prog, ctx, models)
        ctx.data['interp'] = it
        w.recording = False
        mq = it.run_fn(f_new, [bv(8)])
        w.recording = True
        T = ctx.fresh_bv('T_ns')
        LAT = ctx.fresh_bv('LAT_ns')
        ctx.add(z3.And(z3.ULE(T, bv(1 << 40)), z3.ULE(LAT, bv(1 << 36))))
        t_call = ctx.fresh_bv('t_call')
        w.emit('now', 'clock', [], {'t': t_call})
        try:
            res = it.run_fn(f_pt, [Ref(mq.cell), duration_ns(T)])
        except BoundHit:
            ctx.event('witness', 'wake-bound-reached')
            return None
        t_ret = ctx.fresh_bv('t_ret')
        w.max_events = 1 << 30
        w.emit('now', 'clock', [], {'t': t_ret})
        evs = [x[1] for x in w.trace if x[0] == 'ev']
        nows = [e.res['t'] for e in evs if e.kind == 'now']
        cs = [z3.ULE(nows[0], bv(1 << 41))]
        for a, b in zip(nows, nows[1:]):
            cs.append(z3.And(z3.ULE(a, b), z3.ULE(b - a, bv(1 << 41))))
        tok = False
        waits = 0
        total_sleep = bv(0)
        for i, e in enumerate(evs):
            if e.kind == 'q_pop':
                pass
            if e.kind == 'wait_timeout':
                waits += 1
                before = [x.res['t'] for x in evs[:i] if x.kind == 'now'][-1]
                after = [x.res['t'] for x in evs[i + 1:] if x.kind == 'now'][0]
                dur = e.args[0]
                cs.append(z3.Implies(e.res['timed_out'], z3.UGE(after - before, dur)))
                cs.append(z3.ULE(after - before, dur + LAT))
                total_sleep = total_sleep + (after - before)
        ctx.add(z3.And(*cs))
        if not ctx.feasible():
            return None
        if res.variant == 'Some':
            ctx.event('witness', 'returns-request')
            return res
        # None: because of a token?  (the last q_pop returned kind 1)
        pops = [e for e in evs if e.kind in ('q_pop', 'q_peek') and 'kind' in e.res]
        # the last look at the queue saw a token (however the code looks: removing or peeking)
        token = z3.And(pops[-1].res['nonempty'], pops[-1].res['kind'] == 1) if pops else z3.BoolVal(False)
        popped_after_last_wait = True
        ctx.event('witness', 'returns-nothing')
        ctx.event('sample', {'ops': [e.kind for e in evs], 'waits': waits})
        sc = lambda m: {'kind': 'timing', 'T_ns': m.eval(T, True).as_long(), 'LAT_ns': m.eval(LAT, True).as_long(),
                        'clock_reads': [m.eval(x, True).as_long() for x in nows], 'ops': [e.kind for e in evs]}
        ctx.check_always(z3.Or(token, z3.ULT(T, bv(MS)), z3.UGE(t_ret - t_call, T - bv(MS))), 'not-earlier-than-T-minus-1ms', sc)
        # upper bound on the time spent waiting: 2T + (number of waits) * LAT
        ctx.check_always(z3.Or(token, z3.ULE(total_sleep, 2 * T + bv(waits) * LAT)), 'waits-at-most-2T-plus-latency', sc)
        return res

    S.run('recv_timeout/bounds', h, witnesses=['returns-nothing', 'returns-request'],
          bound='one pop_timeout(T) call, T <= 2^40 ns, against an arbitrary environment; at most %d waits per call '
                '(paths needing more are outside the bound); clock below 2^46' % maxw)
    seen = set()
    for (label, sc, st, nm) in S.last_violations:
        if label in seen:
            continue
        seen.add(label)
        rep.violation(Violation('C17', None, 'recv_timeout/%s violated: %s' % (label, sc), sc, 'recv_timeout/bounds/' + label))
        rep.sample(sc)
