"""C07 - each complete request is delivered exactly once; no lost wake-ups.   (also the base model of C17)

BMC over the MIR of util/messages_queue.rs: P producers x m pushes, C receivers x r receive calls of symbolic flavour
(pop / try_pop / pop_timeout(T)), optional unblock callers; schedule, notify targets, spurious wake-ups, timeouts and the
clock are solver variables.
"""
import z3, time
from mirsym.values import *
from mirsym.harness import Session
from mirsym.interp import Unsupported
from mirsym import bmc, sync
from mirsym.report import Violation, is_open_known
from mirsym.models import duration, duration_ns

LEVEL = 'model_checking'


class QHooks:
    """observer state: deliveries per id, per-receiver order, known-finding flag"""

    def __init__(self, ids, receivers, producers_of):
        self.ids = ids
        self.receivers = receivers
        self.prod = producers_of       # id -> (producer, seq)

    def state_vars(self, enc, k, v):
        for i in self.ids:
            v('dcount:%d' % i, z3.BitVecSort(4))
            v('pushed:%d' % i, z3.BoolSort())
        for r in self.receivers:
            v('wokenNT:' + r, z3.BoolSort())
            for p in sorted(set(p for p, _ in self.prod.values())):
                v('last:%s:%s' % (r, p), z3.BitVecSort(4))
        v('kf_consumed', z3.BoolSort())
        v('bad_order', z3.BoolSort())
        v('bad_payload', z3.BoolSort())
        v('none_results', z3.BitVecSort(4))
        v('tokens_popped', z3.BitVecSort(4))
        v('early_none', z3.BoolSort())
        v('last_payload', BV64)
        v('pop_none_without_token', z3.BoolSort())
        v('unblocks_done', z3.BitVecSort(4))
        for r in self.receivers:
            v('tok:' + r, z3.BoolSort())

    def initial(self, enc, S):
        c = []
        for i in self.ids:
            c += [S['dcount:%d' % i] == 0, z3.Not(S['pushed:%d' % i])]
        for r in self.receivers:
            c.append(z3.Not(S['wokenNT:' + r]))
            for p in sorted(set(p for p, _ in self.prod.values())):
                c.append(S['last:%s:%s' % (r, p)] == 0)
        c += [z3.Not(S['kf_consumed']), z3.Not(S['bad_order']), z3.Not(S['bad_payload']), S['none_results'] == 0,
              S['tokens_popped'] == 0, z3.Not(S['early_none']), z3.Not(S['pop_none_without_token']), S['unblocks_done'] == 0]
        for r in self.receivers:
            c.append(z3.Not(S['tok:' + r]))
        return c

    def apply_event(self, enc, ev, S, t, k, g, b):
        if ev.kind == 'result':
            n = t.name
            is_some, payload = ev.args[1], ev.args[2]
            okp = z3.BoolVal(False)
            for i in self.ids:
                hit = z3.And(is_some, payload == i)
                okp = z3.Or(okp, hit)
                S['dcount:%d' % i] = z3.If(hit, S['dcount:%d' % i] + 1, S['dcount:%d' % i])
                S['bad_payload'] = z3.Or(S['bad_payload'], z3.And(hit, z3.Not(S['pushed:%d' % i])))
                p, seq = self.prod[i]
                last = S['last:%s:%s' % (n, p)]
                S['bad_order'] = z3.Or(S['bad_order'], z3.And(hit, z3.UGE(last, seq + 1)))
                S['last:%s:%s' % (n, p)] = z3.If(hit, z3.BitVecVal(seq + 1, 4), last)
            S['bad_payload'] = z3.Or(S['bad_payload'], z3.And(is_some, z3.Not(okp)))
            S['none_results'] = z3.If(is_some, S['none_results'], S['none_results'] + 1)
            S['last_payload'] = z3.If(is_some, payload, S['last_payload'])
            S['kf_consumed'] = z3.Or(S['kf_consumed'], z3.And(z3.Not(is_some), S['wokenNT:' + n]))
            S['wokenNT:' + n] = z3.BoolVal(False)
            if len(ev.args) > 3:
                # timed call returning nothing without having consumed a token: did it return early? (C17)
                S['early_none'] = z3.Or(S['early_none'], z3.And(z3.Not(is_some), z3.Not(S['tok:' + n]), ev.args[3]))
            if ev.extra == 'pop':
                S['pop_none_without_token'] = z3.Or(S['pop_none_without_token'], z3.And(z3.Not(is_some), z3.Not(S['tok:' + n])))
            S['tok:' + n] = z3.BoolVal(False)
            return True
        return False

    def on_wake(self, enc, ev, S, t, k):
        if t.name in self.receivers and 'timed_out' in ev.res:
            S['wokenNT:' + t.name] = z3.Not(ev.res['timed_out'])

    def observe(self, enc, ev, S, t, k, g, b):
        n = t.name
        if ev.kind == 'q_push':
            for i in self.ids:
                S['pushed:%d' % i] = z3.Or(S['pushed:%d' % i], z3.And(ev.args[0] == 0, ev.args[1] == i))
            S['unblocks_done'] = z3.If(ev.args[0] == 1, S['unblocks_done'] + 1, S['unblocks_done'])
        elif ev.kind == 'q_pop' and n in self.receivers:
            S['wokenNT:' + n] = z3.BoolVal(False)
            tk = z3.And(ev.res['nonempty'], ev.res['kind'] == 1)
            S['tokens_popped'] = z3.If(tk, S['tokens_popped'] + 1, S['tokens_popped'])
            S['tok:' + n] = z3.Or(S['tok:' + n], tk)


def find_impl_fn(prog, selfty, method):
    c = prog.inherent.get((selfty, method))
    if not c:
        raise Unsupported('%s::%s not found' % (selfty, method))
    return c[0]


def make_control(kind, payload):
    if kind == 0:
        return Enum('Control', 'Elem', 0, [payload])
    return Enum('Control', 'Unblock', 1, [])


def build_model(S, P, m, C, r, U, K, flavours=('pop', 'try_pop', 'pop_timeout'), max_timeout_ns=10 * 10**9, spurious=True,
                max_events=40, timing=False):
    prog = S.prog
    f_new = find_impl_fn(prog, 'MessagesQueue', 'with_capacity')
    f_push = find_impl_fn(prog, 'MessagesQueue', 'push')
    f_unblock = find_impl_fn(prog, 'MessagesQueue', 'unblock')
    f = {k: find_impl_fn(prog, 'MessagesQueue', k) for k in ('pop', 'try_pop', 'pop_timeout')}
    kinds = {'*': 2}
    makers = {'*': make_control}
    objects = {}

    def init(it, w):
        w.recording = False
        mq = it.run_fn(f_new, [bv(8)])
        w.recording = True
        objects.update(w.objects)
        return mq

    threads = []
    ids = []
    prod = {}
    trees = []
    for p in range(P):
        my = [(p + 1) * 16 + j for j in range(m)]
        for j, i in enumerate(my):
            ids.append(i)
            prod[i] = ('p%d' % p, j)

        segs = []
        for j, i in enumerate(my):
            def prog_p(it, w, i=i):
                mq = init(it, w)
                it.run_fn(f_push, [Ref(mq.cell), bv(i)])
            segs.append(('p%d.s%d' % (p, j), prog_p))
        threads.append(('p%d' % p, segs))
    for c in range(C):
        segs = []
        for j in range(r):
            def prog_c(it, w, c=c, j=j):
                mq = init(it, w)
                myfl = flavours[c] if isinstance(flavours[0], (tuple, list)) else flavours
                fl = myfl[it.ctx.choose(len(myfl), 'flavour')] if len(myfl) > 1 else myfl[0]
                early = None
                if fl == 'pop_timeout':
                    T = w.fresh_bv('T_ns')
                    w.assume(z3.ULE(T, bv(max_timeout_ns)))
                    if timing:
                        t_call = w.fresh_bv('t_call')
                        w.emit('now', 'clock', [], {'t': t_call})
                    res = it.run_fn(f[fl], [Ref(mq.cell), duration_ns(T)])
                    if timing:
                        t_ret = w.fresh_bv('t_ret')
                        w.emit('now', 'clock', [], {'t': t_ret})
                        early = z3.And(z3.UGE(T, bv(1000000)), z3.ULT(t_ret - t_call, T - bv(1000000)))
                else:
                    res = it.run_fn(f[fl], [Ref(mq.cell)])
                some = res.variant == 'Some'
                pay = res.fields[0] if some else bv(0)
                args = [bv(j), z3.BoolVal(some), pay]
                if early is not None:
                    args.append(early)
                w.emit('result', 'obs', args, extra=fl)
            segs.append(('c%d.s%d' % (c, j), prog_c))
        threads.append(('c%d' % c, segs))
    for u in range(U):
        def prog_u(it, w):
            mq = init(it, w)
            it.run_fn(f_unblock, [Ref(mq.cell)])
        threads.append(('u%d' % u, prog_u))
    tl = []
    encoded = set()
    for name, pr in threads:
        segs = pr if isinstance(pr, list) else [(name, pr)]
        trees = []
        for sname, sp in segs:
            # loop-free programs (push / unblock) get a generous bound; a frontier there would mean the bound is too small
            me = max_events if name.startswith('c') else 40
            tree = bmc.unfold(S, sname, sp, max_events=me, elem_kinds=kinds, elem_makers=makers)
            if not name.startswith('c') and tree.terms.get('frontier'):
                raise Unsupported('producer program exceeds the event bound (unexpected loop)')
            encoded |= tree.encoded
            trees.append(tree)
        tl.append(bmc.Thread(name, trees))
    hooks = QHooks(ids, ['c%d' % c for c in range(C)], prod)
    sym = []
    enc = bmc.Encoder(tl, objects, K, cap=min(6, P * m + U + 1), spurious=spurious, hooks=hooks, symmetry=sym)
    enc.encoded = encoded
    enc.ids = ids
    return enc, hooks


def mq_ref_fix(it, mq):
    return mq


def queue_has_elem(enc, Sk, q='queue0'):
    return z3.Or(*[z3.And(z3.UGT(Sk['q:%s:len' % q], i), Sk['q:%s:k%d' % (q, i)] == 0) for i in range(enc.cap)])


def id_in_queue(enc, Sk, i, q='queue0'):
    return z3.Or(*[z3.And(z3.UGT(Sk['q:%s:len' % q], j), Sk['q:%s:k%d' % (q, j)] == 0, Sk['q:%s:p%d' % (q, j)] == i)
                   for j in range(enc.cap)])


def c07_queries(enc):
    K = enc.K
    nf = z3.Not(enc.frontier_reached())
    SK = enc.S[K]
    qs = []
    dup = z3.Or(*[z3.UGE(SK['dcount:%d' % i], 2) for i in enc.ids] + [SK['bad_payload']])
    qs.append(('exactly-once/no-duplicate-no-foreign', dup, [nf]))
    lost = []
    lostw = []
    for k in [K]:    # stuttering is allowed, so a state reachable at any step is reachable at step K
        Sk = enc.S[k]
        qk = enc.quiescent(Sk)
        for i in enc.ids:
            lost.append(z3.And(qk, Sk['pushed:%d' % i], Sk['dcount:%d' % i] == 0, z3.Not(id_in_queue(enc, Sk, i))))
        parkedpop = z3.Or(*[enc.parked_at(th, Sk, lambda ev: ev.kind == 'wait') for th in enc.threads])
        lostw.append(z3.And(qk, queue_has_elem(enc, Sk), parkedpop))
    qs.append(('exactly-once/no-loss', z3.Or(*lost), [nf]))
    qs.append(('wire-order-per-receiver', SK['bad_order'], [nf]))
    qs.append(('no-lost-wakeup/other-than-known', z3.Or(*lostw), [nf, z3.Not(SK['kf_consumed'])]))
    qs.append(('no-lost-wakeup/known-finding-still-present', z3.Or(*lostw), [nf, SK['kf_consumed']]))
    # vacuity witnesses (must be SAT)
    qs.append(('witness/some-delivery', z3.Or(*[SK['dcount:%d' % i] == 1 for i in enc.ids]), [nf]))
    parkers = [t for t in enc.threads if t.park_locs]
    if parkers:
        qs.append(('witness/receiver-parks', z3.Or(*[enc.S[K]['parked:' + t.name] for t in parkers]), [nf]))
    panics = [enc.at_term(t, enc.S[k], 'panic') for k in [K] for t in enc.threads]
    qs.append(('no-panic-in-queue-code', z3.Or(*panics), [nf]))
    return qs


CONFIGS = {
    # name: (P, m, C, r, U, K, flavours, max_events)
    'quick': [('1p1m-pop+timed', 1, 1, 2, 1, 0, 7, (('pop',), ('pop_timeout',)), 10),
              ('1p1m-2timed', 1, 1, 2, 1, 0, 7, (('pop_timeout',), ('pop_timeout',)), 10),
              ('1p2m-2c1r', 1, 2, 2, 1, 0, 9, ('pop', 'try_pop'), 10)],
    'thorough': [('1p1m-pop+timed', 1, 1, 2, 1, 0, 8, (('pop',), ('pop_timeout',)), 10),
                 ('1p1m-2c1r', 1, 1, 2, 1, 0, 10, ('pop', 'try_pop', 'pop_timeout'), 10),
                 ('1p2m-2c1r', 1, 2, 2, 1, 0, 12, ('pop', 'try_pop', 'pop_timeout'), 10),
                 ('2p1m-2c2r', 2, 1, 2, 2, 0, 12, ('pop', 'try_pop', 'pop_timeout'), 8),
                 ('2p1m-3c1r', 2, 1, 3, 1, 0, 12, ('pop', 'pop_timeout'), 8)],
}


def run_configs(L, rep, tier, seed, prop, configs, make_queries, known_map, timing=False, timeout_ms=240000):
    S = Session(L, rep, seed)
    rep.assumptions += [
        'E-sync: Mutex/Condvar/Instant as documented by std (App. C): notify_one wakes one parked un-notified waiter chosen by the solver; '
        'spurious wake-ups are enabled; wait_timeout reports timed_out only if the deadline passed and no notification was consumed',
        'atomics sequentially consistent; durations < 2^64 ns',
        'bound: every thread performs at most max_events visible operations (frontier states excluded) and the run has K atomic steps; '
        'a critical section whose objects are only accessed under its lock (lockset computed from the MIR traces) is one step',
    ]
    for cfg in configs:
        name, P, m, C, r, U, K, fl, me = cfg
        t0 = time.time()
        try:
            enc, hooks = build_model(S, P, m, C, r, U, K, flavours=fl, max_events=me, timing=timing)
            enc.build()
        except Unsupported as e:
            rep.inconc('%s: unsupported construct: %s' % (name, e))
            continue
        rep.functions.update(enc.encoded)
        qs = make_queries(enc)
        # reachability witnesses are searched in a shorter unrolling (reachable in fewer steps => reachable in K steps)
        wq = [q for q in qs if q[0].startswith('witness/')]
        qs = [q for q in qs if not q[0].startswith('witness/')]
        res = bmc.solve_many(enc, qs, timeout_ms=timeout_ms, seed=seed, jobs=int(__import__('os').environ.get('VERIF_JOBS', '14')), extract=lambda e, m: e.replay_info(m))
        if wq:
            encw = bmc.Encoder(enc.threads, enc.objects, min(K, 5), cap=enc.cap, spurious=enc.spurious, hooks=enc.hooks, symmetry=enc.symmetry)
            encw.ids = enc.ids
            encw.build()
            wq2 = [q for q in make_queries(encw) if q[0].startswith('witness/')]
            res += bmc.solve_many(encw, wq2, timeout_ms=timeout_ms, seed=seed, jobs=4)
        ncmd = len(enc.cmds)
        rep.states += sum(len(t.locs) for t in enc.threads)
        rep.transitions += ncmd
        rep.bounds[name] = {'producers': P, 'pushes_each': m, 'receivers': C, 'calls_each': r, 'unblockers': U, 'K_steps': K,
                            'flavours': [list(x) if isinstance(x, (tuple, list)) else x for x in fl], 'max_events_per_thread': me, 'commands': ncmd,
                            'tree_nodes': {t.name: len(t.tree.nodes) for t in enc.threads},
                            'lock_protected_objects': enc.protected, 'unfold_build_s': round(time.time() - t0, 1)}
        for (qn, verdict, secs, tr, exx) in res:
            rep.queries += 1
            rep.solver_seconds += secs
            full = '%s/%s' % (name, qn)
            if qn.startswith('witness/'):
                rep.obligation(full, 'holds' if verdict == 'sat' else 'inconclusive', solver=verdict, seconds=round(secs, 1))
                if verdict != 'sat':
                    rep.inconc('%s: reachability witness not found (%s): vacuity guard' % (full, verdict))
                elif tr:
                    rep.sample({'witness': full, 'schedule': tr[:6]})
                continue
            if verdict == 'unsat':
                rep.obligation(full, 'unsat', seconds=round(secs, 1))
            elif verdict == 'sat':
                key = known_map.get(qn)
                rep.obligation(full, 'sat', seconds=round(secs, 1), known_finding=key)
                rep.sample({'violation': full, 'schedule': tr})
                v = Violation(prop, key, '%s: %s' % (full, describe(tr)), {'kind': 'schedule', 'config': [str(x) for x in cfg[:7]], 'query': qn, 'schedule': tr}, full)
                if not is_open_known(prop, key) and exx and __import__('os').environ.get('VERIF_NO_REPLAY') != '1':
                    replay_queue(L, v, cfg, exx, rep)
                rep.violation(v)
            else:
                rep.obligation(full, 'unknown', seconds=round(secs, 1), solver=verdict)
                if not qn.endswith('known-finding-still-present'):
                    rep.inconc('%s: solver returned %s' % (full, verdict))


def describe(tr):
    if not tr:
        return ''
    return ' ; '.join('%s:%s' % (s['thread'], '+'.join(o.split('(')[0] for o in s['ops'])) for s in tr)[:600]


KNOWN = {'no-lost-wakeup/known-finding-still-present': 'pop-timeout-consumes-notify'}


def run(L, rep, tier, seed):
    run_configs(L, rep, tier, seed, 'C07', CONFIGS[tier], c07_queries, KNOWN)
    single_call_contracts(L, rep, tier, seed, 'C07')


def single_call_contracts(L, rep, tier, seed, prop):
    """each receive flavour, alone, from an ARBITRARY queue content (<= 3 entries of requests / tokens): the call returns
    the head request, or nothing when the head is a token (consuming exactly it) or the queue is empty (try / timed);
    the rest of the queue is untouched. One thread, so this is sequential reasoning; it complements the schedules above."""
    S = Session(L, rep, seed)
    for fl in ('try_pop', 'pop', 'pop_timeout'):
        enc, hooks = build_model(S, 0, 0, 1, 1, 0, 4, flavours=(fl,), max_events=10)
        enc.free_queues = {'queue0'}
        enc.cap = 4
        enc.ids = []
        enc.build()
        S0, SK = enc.S[0], enc.S[enc.K]
        c0 = enc.threads[0]
        nf = z3.Not(enc.frontier_reached())
        len0 = S0['q:queue0:len']
        k0, p0 = S0['q:queue0:k0'], S0['q:queue0:p0']
        done = enc.at_term(c0, SK, 'end')
        kinds_ok = z3.And(*[z3.ULE(S0['q:queue0:k%d' % i], 1) for i in range(enc.cap)])
        # observed result: none_results counts empty-handed returns; got payload recorded through bad_payload (ids empty => any Some is 'foreign')
        res_none = SK['none_results'] == 1
        rest_ok = z3.And(SK['q:queue0:len'] == len0 - 1, *[z3.Implies(z3.UGT(len0, i + 1), z3.And(SK['q:queue0:k%d' % i] == S0['q:queue0:k%d' % (i + 1)],
                                                                                                     SK['q:queue0:p%d' % i] == S0['q:queue0:p%d' % (i + 1)])) for i in range(enc.cap - 1)])
        qs = []
        # head is a request: must be returned (Some) and removed
        qs.append(('%s/head-request-is-returned' % fl, z3.And(done, z3.UGT(len0, 0), k0 == 0, z3.Or(res_none, z3.Not(rest_ok), hooks_last_payload(enc) != p0)), [nf, kinds_ok]))
        # head is a token: returns nothing, consumes exactly the token
        qs.append(('%s/head-token-releases-this-call' % fl, z3.And(done, z3.UGT(len0, 0), k0 == 1, z3.Or(z3.Not(res_none), z3.Not(rest_ok))), [nf, kinds_ok]))
        if fl == 'try_pop':
            qs.append(('%s/empty-returns-nothing' % fl, z3.And(done, len0 == 0, z3.Or(z3.Not(res_none), SK['q:queue0:len'] != 0)), [nf, kinds_ok]))
        qs.append(('witness/%s-returns' % fl, done, [nf, kinds_ok, z3.UGT(len0, 0)]))
        res = bmc.solve_many(enc, qs, timeout_ms=120000, seed=seed, jobs=4)
        rep.functions.update(enc.encoded)
        for (qn, verdict, secs, tr, exx) in res:
            rep.queries += 1
            rep.solver_seconds += secs
            full = 'single-call/' + qn
            if qn.startswith('witness/'):
                rep.obligation(full, 'holds' if verdict == 'sat' else 'inconclusive', solver=verdict)
                if verdict != 'sat':
                    rep.inconc(full + ': witness not found')
            elif verdict == 'unsat':
                rep.obligation(full, 'unsat', seconds=round(secs, 1))
            elif verdict == 'sat':
                rep.obligation(full, 'sat', seconds=round(secs, 1))
                rep.violation(Violation(prop, None, '%s: a single %s call on some queue content misbehaves: %s' % (full, fl, describe(tr)),
                                        {'kind': 'single-call', 'flavour': fl, 'schedule': tr}, full))
            else:
                rep.obligation(full, 'unknown')
                rep.inconc(full + ': solver returned ' + verdict)


def hooks_last_payload(enc):
    return enc.S[enc.K]['last_payload']


def replay_queue(L, v, cfg, info, rep):
    """the schedule is replayed on the real messages_queue.rs under the controlled runtime"""
    from mirsym import replay_sched
    name, P, m, C, r, U = cfg[:6]
    producers = {'p%d' % p: [(p + 1) * 16 + j for j in range(m)] for p in range(P)}
    receivers = {'c%d' % c: r for c in range(C)}
    unbl = ['u%d' % u for u in range(U)]
    threads = replay_sched.queue_programs(info['ops'], producers, receivers, unbl)
    pred = {'results': sorted((t, sum(1 for (t2, o2, p2) in info['ops'][:i] if t2 == t and o2 == 'result'), (p['id'] if p.get('some') else None))
                              for i, (t, o, p) in enumerate(info['ops']) if o == 'result'),
            'parked': info['parked']}
    v.scenario['threads'] = threads
    v.scenario['ops'] = info['ops']
    replay_sched.confirm(L, v, 'queue', threads, info, pred)
    if v.reproduced is not None:
        rep.replays += 1
