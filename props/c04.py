"""C04 - every response is a well-formed, self-delimiting message with exactly the body.   (also: C05's framing headers)

Response::{new, with_chunked_threshold}, raw_print, write_message_header, choose_transfer_encoding, StatusCode::
default_reason_phrase and the dependency chunked_transfer::Encoder run from the MIR; the output is read back by the
independent splitter of respcommon.py, on byte expressions, so body equality is decided by z3 for all body contents.
"""
import z3
from mirsym.values import *
from mirsym.harness import *
from mirsym.interp import RustPanic, Blocked, Unsupported
from mirsym.report import Violation
from props.connlib import K, CRLF, sym_token
from props.respcommon import *
from props.c02 import collect_simple

LEVEL = 'model_checking'
STATUSES = [100, 101, 200, 204, 205, 304, 404, 500, 999]
TES = [None, b'chunked', b'identity', b'chunked;q=0', b'gzip', b'identity;q=0.5, chunked;q=0.9']


def expected_choice(status, version, te, length, thr):
    if version <= (1, 0):
        return 'identity'
    if status < 200 or status == 204:
        return 'identity'
    if te == b'chunked' or te == b'identity;q=0.5, chunked;q=0.9':
        return 'chunked'
    if te == b'identity':
        return 'identity'
    if length is None or length >= thr:
        return 'chunked'
    return 'identity'


def one_case(S, ctx, tier, labels_prefix=''):
    rr = RespRun(S, ctx)
    group = ctx.choose(3, 'group')
    thr_kind, te, pieces, nh, head = 0, None, False, 0, False
    if group == 0:
        # status sweep
        status = STATUSES[ctx.choose(len(STATUSES), 'status')]
        n = [0, 5][ctx.choose(2, 'bodylen')]
        declared = ctx.choose(2, 'declared') == 1
        version = [(1, 0), (1, 1)][ctx.choose(2, 'version')]
        head = ctx.choose(2, 'head') == 1
    elif group == 1:
        # selection sweep
        status = [200, 204, 100, 304][ctx.choose(4, 'status')]
        n = [0, 1, 5][ctx.choose(3, 'bodylen')]
        declared = ctx.choose(2, 'declared') == 1
        thr_kind = ctx.choose(4, 'threshold')
        version = [(1, 0), (1, 1)][ctx.choose(2, 'version')]
        te = TES[ctx.choose(len(TES), 'te')]
        head = ctx.choose(2, 'head') == 1 if tier != 'quick' else False
    else:
        # readers that deliver their data in pieces; an application header
        status = [200, 404][ctx.choose(2, 'status')]
        n = 5
        declared = ctx.choose(2, 'declared') == 1
        version = [(1, 0), (1, 1)][ctx.choose(2, 'version')]
        te = [None, b'chunked'][ctx.choose(2, 'te')]
        pieces = True
        nh = 1
    thr = [32768, 0, n, n + 1][thr_kind]
    body = [ctx.fresh_bv('body', 8) for _ in range(n)]
    hdrs = []
    app = []
    if nh:
        name = sym_token(ctx, 3, 'rname')
        for w in (b'Connection', b'Trailer', b'Transfer-Encoding', b'Upgrade', b'Content-Length', b'Content-Type', b'Date', b'Server'):
            pass        # 3-byte names cannot collide with the special names
        val = sym_token(ctx, 2, 'rval', is_vchar)
        hdrs.append(mk_header(name, val))
        app.append((name, val))
    reader = PieceReader(ctx, body, pieces)
    resp = rr.new(status, hdrs, reader, n if declared else None)
    if thr_kind:
        resp = rr.it.run_fn(rr.f('Response', 'with_chunked_threshold'), [resp, bv(thr)])
    rh = [mk_header(case_variant(ctx, b'TE'), K(te))] if te else []
    sc = lambda m: {'kind': 'response', 'status': status, 'body_hex': model_bytes(m, body).hex(), 'declared': declared, 'threshold': thr,
                    'version': version, 'head': head, 'te': te.decode() if te else None, 'pieces': pieces}
    ctx.event('witness', 'status%d' % status)
    try:
        r, sink = rr.raw_print(resp, version, rh, head)
    except RustPanic as p:
        ctx.check_always(z3.BoolVal(False), 'no-panic', lambda m, p=p: dict(sc(m), panic=p.msg[:200]))
        return None
    ctx.check_always(z3.BoolVal(r.variant == 'Ok'), 'prints-successfully', sc)
    if r.variant != 'Ok':
        return None
    try:
        out = flatten(sink.pieces)
        msg = split_message(out, head_request=head)
    except Malformed as e:
        ctx.check_always(z3.BoolVal(False), 'well-formed-message', lambda m, e=e: dict(sc(m), problem=str(e)))
        return None
    ctx.check_always(z3.BoolVal(True), 'well-formed-message', sc)
    ctx.check_always(z3.BoolVal(msg['status'] == status and msg['version'] == b'HTTP/%d.%d' % version), 'status-line', sc)
    bodyless = head or 100 <= status < 200 or status in (204, 304)
    exp_body = [] if bodyless else body
    okb = len(msg['body']) == len(exp_body) and not msg['rest']
    ctx.check_always(z3.BoolVal(okb), 'exact-body-length-and-nothing-after', lambda m: dict(sc(m), got=len(msg['body']), rest=len(msg['rest'])))
    if okb and exp_body:
        ctx.check_always(z3.And(*[a == b for a, b in zip(msg['body'], exp_body)]), 'exact-body-bytes', sc)
    ctx.check_always(z3.BoolVal(msg['framing'] != 'close-delimited'), 'self-delimiting', sc)
    # framing headers (C05)
    choice = expected_choice(status, version, te, n if declared else None, thr)
    hd = msg['hd']
    has_cl = b'content-length' in hd
    has_te = b'transfer-encoding' in hd
    if choice == 'identity':
        okf = has_cl and not has_te and len(hd[b'content-length']) == 1 and cbytes(hd[b'content-length'][0]) == str(n).encode()
    else:
        okf = has_te and not has_cl and cbytes(hd[b'transfer-encoding'][0]).lower() == b'chunked'
    ctx.check_always(z3.BoolVal(okf), 'framing-headers-follow-the-selection-table', lambda m: dict(sc(m), expected=choice,
                                                                                                    got={'cl': has_cl, 'te': has_te}))
    # application header present once, verbatim
    for (name, val) in app:
        alts = []
        for (k, v, ke) in msg['headers']:
            if len(ke) == len(name) and len(v) == len(val):
                alts.append(z3.And(*([a == b for a, b in zip(ke, name)] + [a == b for a, b in zip(v, val)])))
        ctx.check_always(z3.Or(*alts) if alts else z3.BoolVal(False), 'application-header-sent', sc)
    return msg


def run(L, rep, tier, seed, prop='C04'):
    S = Session(L, rep, seed)
    rep.assumptions += ['the reader handed to Response::new returns exactly the declared number of bytes (mis-declared lengths are excluded by the statement)',
                        'Date value is an opaque printable string (httpdate); decimal / hex rendering of integers is std\'s']

    def h(ctx):
        return one_case(S, ctx, tier) is not None

    S.run('print', h, witnesses=['status200', 'status204', 'status100'], max_paths=200000,
          bound='status in %s; body 0/1/5 symbolic bytes, declared or not; threshold in {default, 0, len, len+1}; request version 1.0/1.1; HEAD or '
                'not; TE in %s; reader delivering whole / in pieces of 1-2 bytes; 0/1 application header' % (STATUSES, TES))
    only = None
    if prop == 'C05':
        only = ('framing-headers-follow-the-selection-table', 'well-formed-message', 'prints-successfully')
        S.last_violations = [v for v in S.last_violations if v[0] in only]
    collect_simple(S, rep, prop, 'print')
    upgrade_case(S, rep, tier, prop)


def upgrade_case(S, rep, tier, prop):
    def h(ctx):
        rr = RespRun(S, ctx)
        status = 101
        resp = rr.new(status, [], PieceReader(ctx, [], False), 0)
        proto = [b'websocket', b'x'][ctx.choose(2, 'proto')]
        sc = lambda m: {'kind': 'response-upgrade', 'protocol': proto.decode()}
        r, sink = rr.raw_print(resp, (1, 1), [], False, upgrade=proto)
        ctx.event('witness', 'upgrade')
        try:
            msg = split_message(flatten(sink.pieces))
        except Malformed as e:
            ctx.check_always(z3.BoolVal(False), 'upgrade/well-formed-message', lambda m, e=e: dict(sc(m), problem=str(e)))
            return None
        hd = msg['hd']
        ok = b'content-length' not in hd and b'transfer-encoding' not in hd and \
            [cbytes(v).lower() for v in hd.get(b'connection', [])] == [b'upgrade'] and [cbytes(v) for v in hd.get(b'upgrade', [])] == [proto]
        ctx.check_always(z3.BoolVal(ok and msg['status'] == 101), 'upgrade/neither-length-nor-coding-and-upgrade-headers', sc)
        return True
    S.run('print-upgrade', h, witnesses=['upgrade'], bound='101 response with the upgrade argument')
    collect_simple(S, rep, prop, 'print-upgrade')
