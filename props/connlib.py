"""Shared harness code for the connection-level properties (C02, C03, C09, C10, C12, C13, C14, C15, C16, C18):
a conversation runner that drives ClientConnection / Request / Response from the MIR over the socket model."""
import z3
from mirsym.values import *
from mirsym.harness import *
from mirsym.interp import Interp, RustPanic, Blocked, Unsupported, BoundHit
from mirsym.models import MODELS, as_slice, deref, lower, io_error, DecStr, reader_read
from mirsym.sync import SeqWorld, SEQ
from mirsym import env
from mirsym.env import Wire, find_fn, render_log, parse_responses

SEQ_MODELS = dict(MODELS)
SEQ_MODELS.update(SEQ)

STD_METHODS = [b'GET', b'HEAD', b'POST', b'PUT', b'DELETE', b'CONNECT', b'OPTIONS', b'TRACE', b'PATCH']
METHOD_VARIANT = ['Get', 'Head', 'Post', 'Put', 'Delete', 'Connect', 'Options', 'Trace', 'Patch']


class _Parked:
    def __repr__(self):
        return 'PARKED'


PARKED = _Parked()


class Conv:
    def __init__(self, S, ctx, data, end='eof', unix=False, short_reads=False, maxlen=None, overrides=None):
        """data: list of byte expressions (concrete layout) or a Buf (symbolic length)"""
        self.S = S
        self.ctx = ctx
        self.world = SeqWorld(ctx)
        self.it = Interp(S.prog, ctx, SEQ_MODELS, overrides)
        ctx.data['interp'] = self.it
        if isinstance(data, Buf):
            buf = data
        else:
            buf = buf_from_exprs(data, 'const')
        self.data = buf
        self.wire = Wire(ctx, buf.arr, buf.len, maxlen or buf.maxlen, end=end, short_reads=short_reads)
        self.wire.unix = unix
        self.cc = Cell(env.new_client_connection(self.it, self.wire))
        self.delivered = []
        self.blocked = None
        self.panic = None
        self.ended = False
        self.alive = True
        self.parked = None
        self.cos = []
        ctx.data.setdefault('cleanups', []).append(self.cleanup)

    # ---- connection thread (a logical thread: it may park on a hand-over from a handler and be resumed later)
    def next(self):
        """one ClientConnection::next(). Returns the Request value, None (iteration ended) or PARKED: the connection thread
        waits for a handler (its turn to write an automatic response, or the socket reader of an unread body)."""
        if self.ended or self.blocked or self.parked is not None:
            return None if self.parked is None else PARKED
        from mirsym.sync import Co
        co = Co(lambda: env.cc_next(self.it, self.cc))
        self.cos.append(co)
        return self._drive(co)

    def _drive(self, co):
        try:
            st = co.resume()
        except Blocked as b:
            self.blocked = b
            return None
        if st == 'parked':
            self.parked = co
            return PARKED
        self.parked = None
        r = co.result
        if r.variant == 'None':
            self.ended = True
            return None
        rq = r.fields[0]
        self.delivered.append(rq)
        return rq

    def resume(self):
        """continue a parked connection thread (after a handler action made progress possible)"""
        co = self.parked
        if co is None:
            return None
        self.parked = None
        return self._drive(co)

    def settle(self):
        """all handler actions are done: a connection thread that is still parked now is blocked forever"""
        if self.parked is not None:
            r = self.resume()
            if r is PARKED:
                self.blocked = Blocked('connection thread parked forever at %r' % (self.parked.why,), self.parked.why)
                self.parked.abort()
                self.parked = None
                return None
            return r
        return None

    def cleanup(self):
        for co in self.cos:
            co.abort()

    def close(self):
        """the connection task ends: the ClientConnection is dropped (on the connection's logical thread: dropping the next
        header reader may have to wait for a handler that still holds the socket reader)"""
        if not self.alive:
            return None
        self.alive = False
        from mirsym.sync import Co
        co = Co(lambda: self.it.drop_value(self.cc.v))
        self.cos.append(co)
        try:
            st = co.resume()
        except Blocked as b:
            self.blocked = b
            return None
        if st == 'parked':
            self.closing = co
            return PARKED
        return None

    def finish_close(self):
        co = getattr(self, 'closing', None)
        if co is None:
            return
        self.closing = None
        try:
            st = co.resume()
        except Blocked as b:
            self.blocked = b
            return
        if st == 'parked':
            self.blocked = Blocked('connection thread parked forever while closing at %r' % (co.why,), co.why)
            co.abort()

    # ---- request accessors (through the crate's own accessor functions)
    def acc(self, rq, name):
        f = find_fn(self.it.prog, 'Request', name)
        return self.it.run_fn(f, [Ref(Cell(rq))])

    def summary(self, rq):
        it = self.it
        cell = Cell(rq)
        g = lambda n: it.run_fn(find_fn(it.prog, 'Request', n), [Ref(cell)])
        m = deref(it, g('method'))
        url = as_slice(it, g('url'))
        ver = deref(it, g('http_version'))
        hs = g('headers')
        items = hs.vec.items[hs.start:hs.end] if isinstance(hs, ListSlice) else hs.items
        headers = []
        for h in items:
            headers.append((as_slice(it, h.fields[0]), as_slice(it, h.fields[1])))
        bl = g('body_length')
        ra = g('remote_addr')
        return {'method': m, 'url': url, 'version': ver, 'headers': headers, 'body_length': bl, 'remote_addr': ra}

    # ---- handler actions
    def response(self, kind='string', status=None, body=b'hello'):
        it = self.it
        if kind == 'string':
            r = it.run_fn(find_fn(it.prog, 'Response', 'from_string'), [Buf.from_bytes(body, 'String')])
        elif kind == 'data':
            r = it.run_fn(find_fn(it.prog, 'Response', 'from_data'), [Buf.from_bytes(body, 'Vec')])
        elif kind == 'reader':
            # Response::new over a reader whose length is not declared
            from props.respcommon import PieceReader
            rd = PieceReader(self.ctx, [bv(c, 8) for c in body], pieces=False)
            return it.run_fn(find_fn(it.prog, 'Response', 'new'), [Struct('StatusCode', [bv(status or 200, 16)]), VecObj([]), rd, NONE(), NONE()])
        else:
            r = it.run_fn(find_fn(it.prog, 'Response', 'empty'), [Struct('StatusCode', [bv(status or 204, 16)])])
            return r
        if status is not None:
            r = it.run_fn(find_fn(it.prog, 'Response', 'with_status_code'), [r, Struct('StatusCode', [bv(status, 16)])])
        return r

    def respond(self, rq, resp=None):
        it = self.it
        if resp is None:
            resp = self.response()
        try:
            return it.run_fn(find_fn(it.prog, 'Request', 'respond'), [rq, resp])
        except Blocked as b:
            self.blocked = b
            return None

    def drop(self, rq):
        try:
            self.it.drop_value(rq)
        except Blocked as b:
            self.blocked = b

    def as_reader(self, rq_cell):
        return self.it.run_fn(find_fn(self.it.prog, 'Request', 'as_reader'), [Ref(rq_cell, (), True)])

    def read_body(self, rq_cell, n, label='appbuf'):
        """one application read of up to n bytes; returns (Result value, buffer Buf)"""
        it = self.it
        try:
            rd = self.as_reader(rq_cell)
        except Blocked as b:
            self.blocked = b
            return None, None
        tmp = Buf(self.ctx.fresh_arr(label), n, max(conc(n) or 64, 1) if not isinstance(n, int) else max(n, 1), 'array')
        try:
            r = reader_read(it, rd, whole(tmp))
        except Blocked as b:
            self.blocked = b
            return None, tmp
        return r, tmp

    # ---- observation
    def output(self, model=None):
        return render_log(self.wire, model)

    def responses(self, model=None):
        b = self.output(model)
        return parse_responses(b) if b is not None else None

    def shutdowns(self):
        return [e for e in self.wire.log if e[0] == 'shutdown']


# ------------------------------------------------------------------------------------------ head builders

def sym_token(ctx, n, label='tok', pred=is_tchar):
    bs = [ctx.fresh_bv(label, 8) for _ in range(n)]
    for b in bs:
        ctx.add(pred(b))
    return bs


def not_equal_bytes(bs, word):
    if len(bs) != len(word):
        return z3.BoolVal(True)
    return z3.Not(z3.And(*[b == ch for b, ch in zip(bs, word)]))


def not_equal_nocase(bs, word):
    if len(bs) != len(word):
        return z3.BoolVal(True)
    return z3.Not(z3.And(*[lower(b) == (ch | 0x20 if 65 <= ch <= 90 else ch) for b, ch in zip(bs, word)]))


def K(b):
    return [bv(x, 8) for x in b]


CRLF = K(b'\r\n')


def slice_eq_exprs(s, exprs):
    """z3: byte slice s equals the list of byte expressions"""
    return z3.And(s.len == len(exprs), *[s.at(i) == e for i, e in enumerate(exprs)])


def drive(cv, hold=lambda i, rq: False, on_request=None, max_requests=6, answer=None):
    """run the connection to its end. hold(i, rq): answer request i only when the connection thread needs it (parked) or at
    the end. returns the list of delivered request summaries (dicts with 'url' bytes when concrete)."""
    out = []
    held = []
    answer = answer or (lambda rq: cv.respond(rq))
    i = 0
    r = cv.next()
    guard = 0
    while guard < 4 * max_requests:
        guard += 1
        if r is PARKED:
            if not held:
                r = cv.settle()
                if r is None:
                    break
                continue
            for rq in held:
                answer(rq)
            held = []
            r = cv.resume()
            continue
        if r is None:
            break
        s = cv.summary(r)
        s['rq'] = r
        out.append(s)
        if on_request:
            on_request(i, r, s)
        if hold(i, r) or held:
            # a response can only be written when all earlier ones are out: later requests wait behind a held one
            held.append(r)
        else:
            answer(r)
        i += 1
        if i >= max_requests:
            break
        r = cv.next()
    for rq in held:
        answer(rq)
    cv.settle()
    return out
