"""C02 - request head fidelity: method, target, version and headers delivered as sent.

The head is built from a symbolic structure (so the oracle knows the intended parse by construction, independently of the
code's own split/trim calls); ClientConnection::{read_next_line, read, next}, parse_request_line, parse_http_version,
Method/Header/HeaderField::from_str, new_request and the Request accessors are executed from the MIR over the socket model.
"""
import z3, os
from mirsym.values import *
from mirsym.harness import *
from mirsym.interp import RustPanic, Blocked, Unsupported
from mirsym.report import Violation, is_open_known
from props.connlib import *

LEVEL = 'model_checking'

VALUE_SHAPES = ['empty', 'one', 'colon-inner-ws']


def build_header(ctx, shape):
    """shape = (name_len, ows_pre, value_shape, ows_post) -> (line bytes, name bytes, trimmed value bytes)"""
    nlen, pre, vshape, post = shape
    name = sym_token(ctx, nlen, 'hname')
    if vshape == 'empty':
        val = []
    elif vshape == 'one':
        val = sym_token(ctx, 1, 'hval', is_vchar)
    else:
        a = sym_token(ctx, 1, 'hval', is_vchar)
        b = sym_token(ctx, 1, 'hval', is_vchar)
        c = sym_token(ctx, 1, 'hval', is_vchar)
        val = a + K(b':') + b + K(b' \t') + c
    line = name + K(b':') + K(pre) + val + K(post)
    return line, name, val


def run(L, rep, tier, seed):
    S = Session(L, rep, seed)
    rep.assumptions += [
        'socket = E-stream (BufReader as an order-preserving pipe); std string primitives per their ASCII semantics (E-str)',
        'peer address: the TcpStream/UnixStream peer_addr call is environment; only the plumbing to Request::remote_addr is checked',
    ]
    PRES = [b'', b' ', b'\t ']
    POSTS = [b'', b' ']
    full_shapes = [(nl, pre, vs, post) for nl in (1, 3) for pre in PRES for vs in VALUE_SHAPES for post in POSTS]
    pair_shapes = [(1, b' ', 'one', b''), (3, b'', 'colon-inner-ws', b' '), (1, b'\t ', 'empty', b''), (3, b' ', 'one', b' ')]

    def h(ctx):
        scen = ctx.choose(3, 'scenario')
        unix = False
        if scen == 0:
            # request-line variety
            mi = ctx.choose(11, 'method')
            if mi < 9:
                method = K(STD_METHODS[mi])
                mexp = ('std', METHOD_VARIANT[mi])
            else:
                n = 1 if mi == 9 else 3
                method = sym_token(ctx, n, 'method')
                for w in STD_METHODS:
                    ctx.add(not_equal_bytes(method, w))
                mexp = ('ext', method)
            target = sym_token(ctx, [1, 4][ctx.choose(2, 'tlen')], 'target', is_vchar)
            ver = ctx.choose(2, 'version')
            k = ctx.choose(2, 'k')
            shapes = [pair_shapes[0]] * k
            unix = ctx.choose(2, 'unix') == 1
        elif scen == 1:
            method, mexp = K(b'GET'), ('std', 'Get')
            target = sym_token(ctx, 2, 'target', is_vchar)
            ver = 1
            shapes = [full_shapes[ctx.choose(len(full_shapes), 'hshape')]]
        else:
            method, mexp = K(b'POST'), ('std', 'Post')
            target = K(b'/') + sym_token(ctx, 1, 'target', is_vchar)
            ver = ctx.choose(2, 'version')
            nh = 2 if tier == 'quick' else 3
            shapes = [pair_shapes[ctx.choose(len(pair_shapes), 'hshape')] for _ in range(nh)]
            if ctx.choose(2, 'dup'):
                shapes[1] = shapes[0]
        vtxt = [b'HTTP/1.0', b'HTTP/1.1'][ver]
        data = method + K(b' ') + target + K(b' ') + K(vtxt) + CRLF
        hdrs = []
        for i, sh in enumerate(shapes):
            line, name, val = build_header(ctx, sh)
            # framing-relevant names are the subject of C03/C16/C18: exclude them here (names are arbitrary other tokens)
            for w in (b'Content-Length', b'Transfer-Encoding', b'Expect', b'Connection', b'TE'):
                ctx.add(not_equal_nocase(name, w))
            data += line + CRLF
            hdrs.append((name, val))
        if scen == 2 and len(hdrs) >= 2 and shapes[0] == shapes[1]:
            # duplicates: same name (any letter case per byte), values free
            for a, b in zip(hdrs[0][0], hdrs[1][0]):
                ctx.add(lower(a) == lower(b))
        data += CRLF
        cv = Conv(S, ctx, data, end='eof', unix=unix)
        sc = lambda m: {'kind': 'conversation', 'bytes_hex': model_bytes(m, data).hex(), 'text': model_bytes(m, data).decode('latin1')}
        rq = cv.next()
        if rq is None:
            ctx.event('witness', 'rejected')
            ctx.check_always(z3.BoolVal(False), 'valid-head-is-delivered', sc)
            return None
        ctx.event('witness', 'delivered')
        s = cv.summary(rq)
        cs = []
        m = s['method']
        if mexp[0] == 'std':
            cs.append(z3.BoolVal(isinstance(m, Enum) and m.variant == mexp[1]))
        else:
            ok = isinstance(m, Enum) and m.variant == 'NonStandard'
            cs.append(z3.BoolVal(ok))
            if ok:
                cs.append(slice_eq_exprs(as_slice(cv.it, m.fields[0]), mexp[1]))
        ctx.check_always(z3.And(*cs), 'method', sc)
        ctx.check_always(slice_eq_exprs(s['url'], target), 'target', sc)
        v = s['version']
        ctx.check_always(z3.And(v.fields[0] == 1, v.fields[1] == ver), 'version', sc)
        hs = s['headers']
        okh = [z3.BoolVal(len(hs) == len(hdrs))]
        if len(hs) == len(hdrs):
            for (gn, gv), (en, evv) in zip(hs, hdrs):
                okh.append(slice_eq_exprs(gn, en))
                okh.append(slice_eq_exprs(gv, evv))
        ctx.check_always(z3.And(*okh), 'headers-order-multiplicity-values', sc)
        ra = s['remote_addr']
        ctx.check_always(z3.BoolVal(ra.variant == ('None' if unix else 'Some')), 'peer-address-plumbing', sc)
        bl = s['body_length']
        ctx.check_always(z3.BoolVal(bl.variant == 'None'), 'no-framing-headers-no-declared-length', sc)
        m0 = ctx.model()
        if m0 is not None:
            txt = model_bytes(m0, data).decode('latin1')
            ctx.event('sample', {'kind': 'conversation', 'text': txt, 'mode': 'respond_all',
                                 'predicted': {'urls': [model_bytes(m0, target).decode('latin1')], 'codes': [200]}})
        # nothing else is delivered; the stream ends cleanly
        cv.respond(rq)
        r2 = cv.next()
        ctx.check_always(z3.BoolVal(r2 is None and cv.blocked is None), 'single-request-then-end', sc)
        return True

    S.run('head-fidelity', h, witnesses=['delivered'], max_paths=40000,
          bound='one request; methods: 9 standard + extension tokens of 1/3 bytes; target 1-4 VCHAR; versions 1.0/1.1; '
                '0..%d headers (names 1/3 tchar, OWS in {none,SP,HTAB SP}/{none,SP}, values {empty, 1 byte, "x:y SP HTAB z"}); '
                'TCP and UNIX peers' % (2 if tier == 'quick' else 3))
    collect_simple(S, rep, 'C02', 'head-fidelity')
    validate_samples(S, rep, 'head-fidelity')
    if tier == 'thorough':
        # E-str / integer / f32 models against the compiled std on every string over a 17-letter alphabet up to length 3
        import subprocess
        p = subprocess.run(['/verif/tools/modelcheck/compare.py'], stdout=subprocess.PIPE, stderr=subprocess.STDOUT, text=True)
        last = p.stdout.strip().split('\n')[-1] if p.stdout.strip() else ''
        rep.obligation('models-agree-with-compiled-std', 'holds' if p.returncode == 0 else 'inconclusive', detail=last)
        if p.returncode != 0:
            rep.inconc('std models disagree with the compiled std: ' + p.stdout[-400:])


def model_or_none(data):
    out = []
    for e in data:
        c = conc(e)
        out.append(chr(c) if c is not None and 32 <= c < 127 else ('\\r' if c == 13 else '\\n' if c == 10 else '?'))
    return ''.join(out)


def collect_simple(S, rep, prop, name, known=None):
    seen = set()
    for (label, sc, st, nm) in S.last_violations:
        key = None
        if known:
            key = known(label, sc)
        if (label, key) in seen:
            continue
        seen.add((label, key))
        v = Violation(prop, key, '%s/%s violated: %s' % (name, label, str(sc)[:300]), sc, name + '/' + label)
        if not is_open_known(prop, key) and os.environ.get('VERIF_NO_REPLAY') != '1':
            # only violations that would be reported are replayed (known findings were confirmed natively when recorded)
            try:
                from mirsym import replay_net
                replay_net.confirm(S.L, v)
            except Exception as e:
                v.replay_note = 'replay machinery failed: %r' % (e,)
        rep.violation(v)
        rep.sample(sc)
    S.last_violations = []


def validate_samples(S, rep, name, limit=3):
    """differential validation of the models (DESIGN 2.4 item 1): a few of the concrete witnesses this run produced are replayed on
    the real build over loopback; the native observables must equal what the model predicted, otherwise the run is inconclusive"""
    if os.environ.get('VERIF_NO_REPLAY') == '1':
        return
    todo = [s for s in rep.samples if isinstance(s, dict) and s.get('kind') == 'conversation' and s.get('predicted') and
            (s.get('bytes_hex') or s.get('text') is not None) and not s.get('_validated')][:limit]
    if not todo:
        return
    try:
        from mirsym import replay_net
        for sc in todo:
            nat = replay_net.observe(S.L, sc)
            sc['_validated'] = True
            if nat is None:
                continue
            pred = sc['predicted']
            diffs = {k: (pred[k], nat.get(k)) for k in pred if pred[k] != nat.get(k)}
            if diffs:
                # a loaded machine can make the loopback run slow: repeat once with generous waits before concluding
                nat = replay_net.observe(S.L, dict(sc, wait_ms=4000, hold_ms=800), timeout_s=40) or nat
                diffs = {k: (pred[k], nat.get(k)) for k in pred if pred[k] != nat.get(k)}
            rep.replays += 1
            sc['native'] = nat
            if diffs:
                rep.inconc('%s: model disagrees with the implementation on a witness: %r (scenario %s)' % (name, diffs, str(sc.get('text', ''))[:120]))
    except Exception as e:
        rep.notes.append('%s: witness replay not possible: %r' % (name, e))
