"""C19 - response header policy: protected names, one Content-Type, automatic Date / Server.

Response::{new, add_header, with_header, from_string, from_data, empty, with_data}, raw_print and build_date_header run from
the MIR; the printed header block is read back by the independent splitter and compared with the reference policy (B4).
"""
import z3
from mirsym.values import *
from mirsym.harness import *
from mirsym.interp import RustPanic, Blocked, Unsupported
from mirsym.report import Violation
from props.connlib import K, CRLF, sym_token, not_equal_nocase
from props.respcommon import *
from props.c02 import collect_simple
from mirsym.models import lower

LEVEL = 'model_checking'
NAMES = ['Connection', 'Trailer', 'Transfer-Encoding', 'Upgrade', 'Content-Length', 'Content-Type', 'Date', 'Server', 'other']
PROTECTED = ('Connection', 'Trailer', 'Transfer-Encoding', 'Upgrade')
SPECIAL = [n.encode() for n in NAMES if n != 'other']


def run(L, rep, tier, seed):
    S = Session(L, rep, seed)
    rep.assumptions += ['Date value: an opaque 29-byte printable string from httpdate (its validity as an HTTP-date is the dependency\'s contract)']
    nmax = 2 if tier == 'quick' else 4

    def h(ctx):
        rr = RespRun(S, ctx)
        k = 1 + ctx.choose(nmax, 'nheaders')
        via = ctx.choose(3, 'via')        # 0: constructor list, 1: add_header, 2: with_header
        specs = []
        hdrs = []
        for i in range(k):
            nm = NAMES[ctx.choose(len(NAMES), 'name')]
            if nm == 'other':
                name = sym_token(ctx, 4, 'hn')
                for w in SPECIAL:
                    ctx.add(not_equal_nocase(name, w))
            else:
                name = case_variant(ctx, nm.encode())
            if nm == 'Content-Length':
                val = K([b'7', b'x1', b''][ctx.choose(3, 'clv')])
            else:
                val = sym_token(ctx, 2, 'hv', is_vchar)
            specs.append((nm, name, val))
            hdrs.append(mk_header(name, val))
        body = [ctx.fresh_bv('b', 8) for _ in range(3)]
        if via == 0:
            resp = rr.new(200, hdrs, PieceReader(ctx, body, False), 3)
        else:
            resp = rr.new(200, [], PieceReader(ctx, body, False), 3)
            for hd in hdrs:
                if via == 1:
                    cell = Cell(resp)
                    rr.it.run_fn(rr.f('Response', 'add_header'), [Ref(cell, (), True), hd])
                    resp = cell.v
                else:
                    resp = rr.it.run_fn(rr.f('Response', 'with_header'), [resp, hd])
        sc = lambda m: {'kind': 'response-headers', 'via': ['new', 'add_header', 'with_header'][via],
                        'headers': [(model_bytes(m, n).decode('latin1'), model_bytes(m, v).decode('latin1')) for (_, n, v) in specs]}
        ctx.event('witness', 'k%d' % k)
        # reference policy (B4)
        kept = []
        declared = 3
        for (nm, name, val) in specs:
            if nm in PROTECTED:
                continue
            if nm == 'Content-Length':
                c = cbytes(val)
                if c.isdigit():
                    declared = int(c)
                continue
            if nm == 'Content-Type':
                idx = [i for i, (n2, _, _) in enumerate(kept) if n2 == 'Content-Type']
                if idx:
                    kept[idx[0]] = (nm, kept[idx[0]][1], val)
                    continue
            kept.append((nm, name, val))
        if declared != 3:
            # a Content-Length header that disagrees with the data is outside the statement (length declared correctly)
            return None
        try:
            r, sink = rr.raw_print(resp, (1, 1), [], False)
            msg = split_message(flatten(sink.pieces))
        except RustPanic as p:
            ctx.check_always(z3.BoolVal(False), 'no-panic', lambda m, p=p: dict(sc(m), panic=p.msg[:200]))
            return None
        except Malformed as e:
            ctx.check_always(z3.BoolVal(False), 'well-formed-message', lambda m, e=e: dict(sc(m), problem=str(e)))
            return None
        got = [(nb, v, ne) for (nb, v, ne) in msg['headers']]

        def zis(ne, word):
            if len(ne) != len(word):
                return z3.BoolVal(False)
            return z3.And(*[lower(e) == (ch | 0x20 if 65 <= ch <= 90 else ch) for e, ch in zip(ne, word)])

        def zcount(word):
            tot = z3.IntVal(0)
            for (nb, v, ne) in got:
                tot = tot + z3.If(zis(ne, word), 1, 0)
            return tot
        for pn in PROTECTED:
            if pn != 'Transfer-Encoding':
                ctx.check_always(zcount(pn.encode()) == 0, 'protected-names-never-sent', sc)
        # framing header is the library's own (identity: Content-Length: 3)
        cl = [v for (nb, v, ne) in got if nb.lower() == b'content-length']
        ctx.check_always(z3.And(zcount(b'Content-Length') == 1, zcount(b'Transfer-Encoding') == 0,
                                z3.BoolVal(len(cl) == 1 and cbytes(cl[0]) == b'3')), 'only-the-library-framing-header', sc)
        supplied_date = any(nm == 'Date' for (nm, _, _) in kept)
        supplied_server = any(nm == 'Server' for (nm, _, _) in kept)
        ctx.check_always(zcount(b'Date') == (sum(1 for (nm, _, _) in kept if nm == 'Date') if supplied_date else 1), 'exactly-one-date-unless-supplied', sc)
        ctx.check_always(zcount(b'Server') == (sum(1 for (nm, _, _) in kept if nm == 'Server') if supplied_server else 1), 'exactly-one-server-unless-supplied', sc)
        ctx.check_always(zcount(b'Content-Type') <= 1, 'at-most-one-content-type', sc)
        # kept headers appear once each, in order, verbatim (after the automatic ones, before the framing header)
        auto = (0 if supplied_server else 1) + (0 if supplied_date else 1)
        app_part = got[auto:len(got) - 1]
        okn = len(app_part) == len(kept)
        ctx.check_always(z3.BoolVal(okn), 'kept-headers-count', lambda m: dict(sc(m), got=[nb.decode('latin1') for nb, _, _ in got]))
        if okn:
            eqs = []
            for (nb, v, ne), (nm, name, val) in zip(app_part, kept):
                eqs.append(z3.BoolVal(len(ne) == len(name) and len(v) == len(val)))
                if len(ne) == len(name) and len(v) == len(val):
                    eqs += [a == b for a, b in zip(ne, name)] + [a == b for a, b in zip(v, val)]
            ctx.check_always(z3.And(*eqs), 'kept-headers-in-order-verbatim', sc)
        return True

    S.run('policy', h, witnesses=['k1', 'k2'], max_paths=200000,
          bound='1..%d headers with names from %s (any letter case; "other" = symbolic 4-byte token), added through the constructor, '
                'add_header or with_header; 2-byte symbolic values; Content-Length values 7 / x1 / empty' % (nmax, NAMES))
    collect_simple(S, rep, 'C19', 'policy')
    constructors(S, rep, tier)


def constructors(S, rep, tier):
    def h(ctx):
        rr = RespRun(S, ctx)
        which = ctx.choose(3, 'ctor')
        n = [0, 1, 4][ctx.choose(3, 'len')]
        data = [ctx.fresh_bv('d', 8) for _ in range(n)]
        if which == 0:
            # from_string with multi-byte UTF-8: the length is the BYTE length
            s = buf_from_exprs(data, 'String')
            resp = rr.it.run_fn(rr.f('Response', 'from_string'), [s])
        elif which == 1:
            resp = rr.it.run_fn(rr.f('Response', 'from_data'), [buf_from_exprs(data, 'Vec')])
        else:
            resp = rr.it.run_fn(rr.f('Response', 'empty'), [Struct('StatusCode', [bv(204, 16)])])
            n = 0
        dl = rr.it.run_fn(rr.f('Response', 'data_length'), [Ref(Cell(resp))])
        ctx.event('witness', 'ctor%d' % which)
        sc = lambda m: {'kind': 'constructor', 'which': ['from_string', 'from_data', 'empty'][which], 'len': n}
        ctx.check_always(z3.And(z3.BoolVal(dl.variant == 'Some'), (dl.fields[0] == n) if dl.variant == 'Some' else z3.BoolVal(False)),
                         'constructors-declare-the-byte-length', sc)
        if which == 0:
            hs = rr.it.run_fn(rr.f('Response', 'headers'), [Ref(Cell(resp))])
            items = hs.vec.items[hs.start:hs.end] if isinstance(hs, ListSlice) else hs.items
            ok = len(items) == 1 and as_slice(rr.it, items[0].fields[0]).concrete() == b'Content-Type'
            ctx.check_always(z3.BoolVal(ok), 'from_string-sets-one-content-type', sc)
        return True
    S.run('constructors', h, witnesses=['ctor0', 'ctor1', 'ctor2'], bound='from_string / from_data with 0/1/4 arbitrary bytes, empty(204); from_file outside (file system)')
    collect_simple(S, rep, 'C19', 'constructors')
