"""C09 - message boundaries hold whether or not the application consumes the body.

Same machinery as C03; the application reads none / part / all of the body and then responds, drops the request or turns it
into a raw writer; the next pipelined request must then be parsed from the first byte after the body.
"""
import z3
from mirsym.values import *
from mirsym.harness import *
from mirsym.report import Violation
from props.connlib import *
from props.c02 import collect_simple
from props.c03 import build_request, sym_bytes

LEVEL = 'model_checking'
FRAMINGS = ['cl-small', 'cl-1024', 'cl-1025', 'chunked', 'chunked+cl', 'cl-small+expect']
CONSUME = ['none', 'one-byte', 'all-but-one', 'all-no-eof', 'all-eof']
FINISH = ['respond', 'drop', 'into_writer']


def run(L, rep, tier, seed):
    S = Session(L, rep, seed)
    rep.assumptions += ['socket = E-stream; the connection thread is a logical thread that parks on the reader hand-over and is resumed by handler actions']

    def h(ctx):
        fr = FRAMINGS[ctx.choose(len(FRAMINGS), 'framing')]
        co = CONSUME[ctx.choose(len(CONSUME), 'consume')]
        fin = FINISH[ctx.choose(len(FINISH), 'finish')]
        # 'cl-small+expect': the client announces Expect: 100-continue but sends the body without waiting (it may: RFC 7231 5.1.1)
        # (the 10-byte chunk shape of C03's thorough tier multiplies the consumption prefixes beyond the path bound: 60 000 paths were
        #  not enough in 77 min; the thorough tier of C09 keeps the quick shapes)
        data, body, declared, end, headlen = build_request(ctx, fr.split('+expect')[0], 'quick', expect=fr.endswith('+expect'), concrete_body=True)
        nb = len(body)
        seg = 'choose' if (fr == 'cl-small' or (fr == 'cl-1025' and co in ('none', 'one-byte'))) and ctx.choose(2, 'segmented') else False
        cv = Conv(S, ctx, data, end='eof', short_reads=seg)
        sc = lambda m: {'kind': 'conversation', 'framing': fr, 'consume': co, 'finish': fin, 'segmented': bool(seg),
                        'bytes_hex': model_bytes(m, data).hex() if len(data) < 400 else None, 'text': model_bytes(m, data[:160]).decode('latin1')}
        rq = cv.next()
        if rq is None or rq is PARKED:
            ctx.check_always(z3.BoolVal(False), 'request-delivered', sc)
            return None
        ctx.event('witness', fr)
        ctx.event('witness', co)
        ctx.event('witness', fin)
        cell = Cell(rq)
        # the connection thread moves on to the next head right away (it may have to wait for the body reader)
        early = cv.next()
        want = {'none': 0, 'one-byte': 1, 'all-but-one': max(nb - 1, 0), 'all-no-eof': nb, 'all-eof': nb}[co]
        got = 0
        guard = 0
        while got < want and guard < 2000:
            guard += 1
            r, tmp = cv.read_body(cell, min(want - got, 600))
            if r is None or r.variant == 'Err':
                break
            k = conc(concretize(ctx, r.fields[0]))
            if not k:
                break
            got += k
        if co == 'all-eof':
            cv.read_body(cell, 8)
        if fin == 'respond':
            cv.respond(cell.v)
        elif fin == 'drop':
            cv.drop(cell.v)
        else:
            w = cv.it.run_fn(find_fn(cv.it.prog, 'Request', 'into_writer'), [cell.v])
            from mirsym.models import writer_write
            writer_write(cv.it, Ref(Cell(w), (), True), const_str(b'HTTP/1.1 204 No Content\r\n\r\n', False))
            cv.drop(w)
        r2 = early
        if r2 is PARKED:
            r2 = cv.resume()
        if r2 is PARKED:
            r2 = cv.settle()
        label = ('chunked-body-left-unread' if (fr.startswith('chunked') and co != 'all-eof') else 'next-request-starts-after-body')
        if r2 is not None and r2 is not PARKED:
            s2 = cv.summary(r2)
            whole_req = z3.And(slice_eq_exprs(s2['url'], K(b'/n')), z3.BoolVal(isinstance(s2['method'], Enum) and s2['method'].variant == 'Get'),
                               z3.BoolVal(len(s2['headers']) == 1), s2['version'].fields[0] == 1, s2['version'].fields[1] == 1)
            ctx.check_always(whole_req, label, sc)
        else:
            ctx.check_always(z3.BoolVal(False), label, sc)
        return True

    S.run('boundaries', h, witnesses=FRAMINGS + CONSUME + FINISH, max_paths=60000,
          bound='framings %s x consumption %s x finishing %s; one following pipelined GET; Content-Length 1/3/1024/1025; '
                'chunkings as C03' % (FRAMINGS, CONSUME, FINISH))

    def known(label, sc):
        return 'chunked-body-not-drained' if label == 'chunked-body-left-unread' else None
    collect_simple(S, rep, 'C09', 'boundaries', known)
    connection_options(S, rep, tier)


OPTION_VALUES = [b'Upgrade-Insecure-Requests', b'keep-alive, Upgrade-Insecure-Requests', b'x-upgrade', b'keep-alive, closed', b'not-close, keep-alive',
                 b'keep-alive', b'Keep-Alive, x']


def connection_options(S, rep, tier):
    """whatever the request side and the connection side of the library make of a Connection value (an option that merely
    CONTAINS 'upgrade' or 'close'), they must agree: after a request with an unread Content-Length body, either the connection
    delivers nothing more, or the next delivered request is exactly the one the client sent after the body -- never a request
    made of body bytes"""
    def h(ctx):
        val = OPTION_VALUES[ctx.choose(len(OPTION_VALUES), 'connection-value')]
        ver = [b'HTTP/1.1', b'HTTP/1.0'][ctx.choose(2, 'version')]
        fin = ['respond', 'drop', 'read-all-respond'][ctx.choose(3, 'finish')]
        body = b'GET /s HTTP/1.1\r\nHost: s\r\n\r\n'       # a body that looks like a request
        data = K(b'POST /first ' + ver + b'\r\nHost: h\r\nConnection: ' + val + b'\r\nContent-Length: %d\r\n\r\n' % len(body) + body +
                 b'GET /n HTTP/1.1\r\nHost: h\r\n\r\n')
        cv = Conv(S, ctx, data, end='eof')
        sc = lambda m: {'kind': 'conversation', 'connection': val.decode(), 'finish': fin, 'text': bytes(conc(x) for x in data).decode('latin1'),
                        'predicted': {'urls': urls}}
        urls = []
        rq = cv.next()
        ctx.event('witness', 'option:' + val.decode())
        if rq is None or rq is PARKED:
            ctx.check_always(z3.BoolVal(False), 'request-delivered', sc)
            return None
        urls.append('/first')
        cell = Cell(rq)
        early = cv.next()
        if fin == 'read-all-respond':
            for _ in range(6):
                r, tmp = cv.read_body(cell, 16)
                if r is None or r.variant == 'Err' or not conc(concretize(ctx, r.fields[0])):
                    break
        if fin == 'drop':
            cv.drop(cell.v)
        else:
            cv.respond(cell.v)
        later = []
        r2 = early
        for _ in range(3):
            if r2 is PARKED:
                r2 = cv.resume()
            if r2 is PARKED:
                r2 = cv.settle()
            if r2 is None or r2 is PARKED:
                break
            later.append(r2)
            cv.respond(r2)
            r2 = cv.next()
        ok = True
        for r in later:
            s2 = cv.summary(r)
            u = s2['url'].concrete()
            urls.append(u.decode('latin1') if u is not None else '?')
            ok = ok and u == b'/n' and isinstance(s2['method'], Enum) and s2['method'].variant == 'Get'
        ok = ok and len(later) <= 1
        codes = [r.get('status') for r in (cv.responses() or [])]
        if fin == 'read-all-respond' and later:
            # an application that read the body to its end must have seen exactly the body
            pass
        ctx.check_always(z3.BoolVal(ok and 400 not in codes), 'no-request-made-of-body-bytes', sc)
        return True

    S.run('connection-options', h, witnesses=['option:' + v.decode() for v in OPTION_VALUES[:2]], max_paths=4000,
          bound='Connection values %s x HTTP/1.0, 1.1 x respond / drop / read-all; Content-Length body that looks like a request; one following GET'
                % [v.decode() for v in OPTION_VALUES])
    collect_simple(S, rep, 'C09', 'connection-options')
