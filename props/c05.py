"""C05 - chunked/identity selection is a fixed function of version, status, TE and length.

Obligations (all decided by z3 over the MIR of the current tree):
  choose/noTE             choose_transfer_encoding without a TE header == reference table (B3), whole scalar domain
  TE/parse_header_value   util::parse_header_value on strings built from a symbolic list structure == that structure
  TE/choose               choose_transfer_encoding with parse_header_value replaced by its contract (arbitrary list)
  print/framing           raw_print's framing headers follow the choice (props/respcommon.py, shared with C04)
"""
import z3
from mirsym.values import *
from mirsym.harness import *
from mirsym.interp import RustPanic, Unsupported
from mirsym.report import Violation
from mirsym.models import lower, as_slice

LEVEL = 'model_checking'


def ref_choice_no_te(status, major, minor, has_len, length, thr):
    """B3 without a usable TE header: True = chunked"""
    le10 = z3.Or(z3.ULT(major, 1), z3.And(major == 1, minor == 0))
    no_te_status = z3.Or(z3.ULT(status, 200), status == 204)
    big = z3.Or(z3.Not(has_len), z3.UGE(length, thr))
    return z3.And(z3.Not(le10), z3.Not(no_te_status), big)


def find_free(prog, name):
    c = prog.free.get(name)
    if not c:
        raise Unsupported(name + ' not found in the MIR')
    return c[0]


def te_name_is(bytes_exprs, word):
    if len(bytes_exprs) != len(word):
        return z3.BoolVal(False)
    return z3.And(*[lower(b) == ch for b, ch in zip(bytes_exprs, word)])


def run(L, rep, tier, seed):
    S = Session(L, rep, seed)
    prog = L.prog
    fn = find_free(prog, 'choose_transfer_encoding')
    rep.assumptions += [
        'TE q-values: RFC 7231 qvalue grammar exact; nan/inf literals modelled; other spellings over-approximated as an arbitrary finite value or a parse error',
        'slice::sort_by modelled as a stable sort with the total-order precondition asserted',
        'has_additional_headers = false (the only value raw_print passes)',
        'modular: TE/choose assumes the contract that TE/parse_header_value establishes on the same MIR',
    ]

    # ---------------------------------------------------------------- no TE header, whole scalar domain
    def h_no_te(ctx):
        it = S.interp(ctx)
        status = ctx.fresh_bv('status', 16)
        major = ctx.fresh_bv('major', 8)
        minor = ctx.fresh_bv('minor', 8)
        thr = ctx.fresh_bv('thr', 64)
        length = ctx.fresh_bv('len', 64)
        has_len = ctx.choose(2, 'has_len') == 1
        nh = ctx.choose(3, 'nheaders')
        hs = []
        for i in range(nh):
            nb = [ctx.fresh_bv('hn', 8) for _ in range(2)]
            ctx.add(z3.Not(z3.And(lower(nb[0]) == ord('t'), lower(nb[1]) == ord('e'))))
            ctx.add(z3.And(*[is_tchar(b) for b in nb]))
            hs.append(mk_header(nb, [ctx.fresh_bv('hv', 8)]))
        headers = ListSlice(VecObj(hs))
        ver = Struct('HTTPVersion', [major, minor])
        el = Some(length) if has_len else NONE()
        r = it.run_fn(fn, [Struct('StatusCode', [status]), headers, Ref(Cell(ver)), Ref(Cell(el)), z3.BoolVal(False), thr])
        exp_chunked = ref_choice_no_te(status, major, minor, z3.BoolVal(has_len), length, thr)
        got_chunked = (r.variant == 'Chunked')
        ctx.event('witness', 'chunked' if got_chunked else 'identity')

        def scen(m):
            return {'kind': 'choose', 'status': m.eval(status, True).as_long(), 'version': [m.eval(major, True).as_long(), m.eval(minor, True).as_long()],
                    'length': m.eval(length, True).as_long() if has_len else None, 'threshold': m.eval(thr, True).as_long(),
                    'te': None, 'got': r.variant}
        ctx.check_always(exp_chunked if got_chunked else z3.Not(exp_chunked), 'table', scen)
        return r

    S.run('choose/noTE', h_no_te, witnesses=['chunked', 'identity'],
          bound='status u16, version u8 x u8, length Option<u64>, threshold u64: all values; 0..2 non-TE headers')
    collect(S, rep, 'choose/noTE')

    # ---------------------------------------------------------------- with a TE header (modular)
    phv = find_free(prog, 'parse_header_value')
    kleaf = 2 if tier == 'quick' else 3
    QFORMS = ['absent', 'x', 'd', 'd.ddd', 'd.'] + ([] if tier == 'quick' else ['d.d', 'nan'])

    def h_leaf(ctx):
        it = S.interp(ctx)
        k = 1 + ctx.choose(kleaf, 'k')
        value = []
        elems = []
        for e in range(k):
            if e:
                value.append(bv(ord(','), 8))
            ows = ctx.choose(3, 'ows')
            if ows == 1:
                value.append(bv(0x20, 8))
            nb = [ctx.fresh_bv('name', 8) for _ in range(2)]
            ctx.add(z3.And(*[is_tchar(b) for b in nb]))
            start = len(value)
            value += nb
            if ows == 1:
                value.append(bv(0x09, 8))
            qf = QFORMS[ctx.choose(len(QFORMS), 'qform')]
            q = ('fin', z3.BitVecVal(1000, 32))
            if qf != 'absent':
                value.append(bv(ord(';'), 8))
                if ows == 2:
                    value.append(bv(0x20, 8))
                value += [bv(ord('q'), 8), bv(ord('='), 8)]
                if qf == 'x':
                    value.append(bv(ord('x'), 8))
                elif qf == 'nan':
                    value += case_variant(ctx, b'nan')
                    q = ('nan', None)
                else:
                    d0 = ctx.fresh_bv('q0', 8)
                    ctx.add(z3.Or(d0 == 0x30, d0 == 0x31))
                    value.append(d0)
                    m = z3.ZeroExt(24, d0 - 0x30) * 1000
                    nd = {'d': -1, 'd.': 0, 'd.d': 1, 'd.ddd': 3}[qf]
                    if nd >= 0:
                        value.append(bv(ord('.'), 8))
                    for j in range(max(nd, 0)):
                        dj = ctx.fresh_bv('qd', 8)
                        ctx.add(z3.And(z3.UGE(dj, 0x30), z3.ULE(dj, 0x39)))
                        value.append(dj)
                        m = m + z3.ZeroExt(24, dj - 0x30) * [100, 10, 1][j]
                    q = ('fin', m)
                if ows == 2:
                    value.append(bv(0x20, 8))
            elems.append((start, nb, q))
        buf = buf_from_exprs(value, 'String')
        r = it.run_fn(phv, [whole(buf, True)])
        ctx.event('witness', 'parsed%d' % k)
        items = r.items
        ok = z3.BoolVal(len(items) == k)
        if len(items) == k:
            cs = []
            for (start, nb, q), item in zip(elems, items):
                nm, qv = item.fields
                cs.append(z3.And(z3.BoolVal(nm.buf is buf), nm.off == start, nm.len == 2))
                if q[0] == 'nan':
                    # a not-a-number weight is outside the qvalue grammar: the parser may report it as such (the selection then
                    # has to cope, C14) or treat it like any other unparsable weight (default 1.0); both are accepted here
                    cs.append(z3.Or(z3.BoolVal(qv.cls == 'nan'), z3.And(z3.BoolVal(qv.cls == 'fin'), (qv.milli == 1000) if qv.cls == 'fin' else z3.BoolVal(False))))
                else:
                    cs.append(z3.BoolVal(qv.cls == 'fin'))
                    if qv.cls == 'fin':
                        cs.append(qv.milli == q[1])
            ok = z3.And(*cs)
        ctx.check_always(ok, 'list-grammar', lambda m: {'kind': 'parse_header_value', 'input': model_bytes(m, value).decode('latin1'),
                                                         'got': repr(items)})
        return r

    S.run('TE/parse_header_value', h_leaf, witnesses=['parsed1', 'parsed2'],
          bound='1..%d list elements; 2-byte symbolic token names; OWS layouts {none, SP name HTAB, SP after ; and at end}; '
                'q forms %s with symbolic digits' % (kleaf, QFORMS))
    collect(S, rep, 'TE/parse_header_value')

    kmax = 2 if tier == 'quick' else 3
    QCLS = ['fin'] if tier == 'quick' else ['fin', 'fin', 'nan']

    def h_te(ctx):
        status = ctx.fresh_bv('status', 16)
        major = ctx.fresh_bv('major', 8)
        minor = ctx.fresh_bv('minor', 8)
        thr = ctx.fresh_bv('thr', 64)
        length = ctx.fresh_bv('len', 64)
        has_len = ctx.choose(2, 'has_len') == 1
        k = 1 + ctx.choose(kmax, 'k')
        elems = []
        called = []
        for e in range(k):
            nlen = [7, 8, 3][ctx.choose(3, 'namelen')]
            nb = [ctx.fresh_bv('te_name', 8) for _ in range(nlen)]
            ctx.add(z3.And(*[is_tchar(b) for b in nb]))
            qc = QCLS[ctx.choose(len(QCLS), 'qcls')] if len(QCLS) > 1 else 'fin'
            q = ctx.fresh_bv('q', 32) if qc == 'fin' else None
            elems.append((nb, qc, q))
        vbuf = buf_from_exprs([ctx.fresh_bv('v', 8) for _ in range(3)])
        hname = case_variant(ctx, b'TE')
        hdr = Struct('Header', [Struct('HeaderField', [buf_from_exprs(hname)]), vbuf])

        def phv_summary(it, args, f):
            s = as_slice(it, args[0])
            called.append(s)
            out = VecObj()
            for nb, qc, q in elems:
                out.items.append(Struct('(tuple)', [whole(buf_from_exprs(nb, 'const'), True), F32(qc, q)]))
            return out
        it = S.interp(ctx, overrides={'parse_header_value': phv_summary})
        headers = ListSlice(VecObj([hdr]))
        ver = Struct('HTTPVersion', [major, minor])
        el = Some(length) if has_len else NONE()
        has_nan = any(qc == 'nan' for _, qc, _ in elems)
        try:
            r = it.run_fn(fn, [Struct('StatusCode', [status]), headers, Ref(Cell(ver)), Ref(Cell(el)), z3.BoolVal(False), thr])
        except RustPanic as p:
            ctx.event('witness', 'panic')
            ctx.event('sample', {'panic': p.msg[:80], 'q': [qc for _, qc, _ in elems]})
            if not has_nan:
                ctx.check_always(z3.BoolVal(False), 'no-panic', lambda m: {'kind': 'choose', 'panic': p.msg})
            # with NaN q-values the panic is C14's known finding te-qvalue-nan-sort-panic; C05 only records it
            return None
        got_chunked = (r.variant == 'Chunked')
        ctx.event('witness', 'chunked' if got_chunked else 'identity')
        if has_nan:
            return r
        le10 = z3.Or(z3.ULT(major, 1), z3.And(major == 1, minor == 0))
        no_te_status = z3.Or(z3.ULT(status, 200), status == 204)
        sup = []
        for nb, qc, q in elems:
            isc = te_name_is(nb, b'chunked')
            isi = te_name_is(nb, b'identity')
            sup.append((z3.And(z3.Or(isc, isi), q > 0), isc, q))
        any_sup = z3.Or(*[s for s, _, _ in sup])

        def acceptable(chunked):
            alts = []
            for (s, isc, q) in sup:
                mx = z3.And(*[z3.Implies(s2, q >= q2) for (s2, _, q2) in sup])
                alts.append(z3.And(s, mx, isc if chunked else z3.Not(isc)))
            return z3.Or(*alts)
        table = ref_choice_no_te(status, major, minor, z3.BoolVal(has_len), length, thr)
        used_te = z3.BoolVal(len(called) == 1 and called[0].buf.arr.eq(vbuf.arr)) if called else z3.BoolVal(True)
        exp = z3.If(z3.Or(le10, no_te_status), z3.BoolVal(not got_chunked),
                    z3.If(any_sup, z3.And(acceptable(got_chunked), z3.BoolVal(bool(called))), table == z3.BoolVal(got_chunked)))

        def scen(m):
            return {'kind': 'choose', 'status': m.eval(status, True).as_long(), 'version': [m.eval(major, True).as_long(), m.eval(minor, True).as_long()],
                    'length': m.eval(length, True).as_long() if has_len else None, 'threshold': m.eval(thr, True).as_long(),
                    'te_list': [(model_bytes(m, nb).decode('latin1'), (m.eval(q, True).as_signed_long() / 1000.0) if q is not None else 'nan') for nb, qc, q in elems],
                    'got': r.variant}
        ctx.check_always(z3.And(exp, used_te), 'te-preference', scen)
        return r

    S.run('TE/choose', h_te, witnesses=['chunked', 'identity'], max_paths=200000,
          bound='parse_header_value replaced by its contract: list of 1..%d (name, q); names of 7/8/3 symbolic tchar bytes; '
                'q any signed milli-value (32 bit)%s; all scalars symbolic' % (kmax, '' if tier == 'quick' else ' or NaN'))
    collect(S, rep, 'TE/choose')
    # framing headers printed by raw_print follow the choice (same harness as C04, framing obligations only)
    from props import c04
    c04.run(L, rep, tier, seed, prop='C05')
    # second engine: the version ordering the selection relies on, and the status-code conversions, by Kani/CBMC at full width
    from mirsym import kani_run
    kani_run.run(L, rep, 'C05', {'version_ordering_is_lexicographic': 'holds', 'witness_version_ordering_reached': 'witness',
                                 'status_code_roundtrip': 'holds'})


def collect(S, rep, name):
    seen = set()
    for (label, sc, st, nm) in S.last_violations:
        if label in seen:
            continue
        seen.add(label)
        v = Violation(rep.prop, None, '%s/%s: differs from the reference: %s' % (name, label, sc), sc, name + '/' + label)
        confirm(S, v)
        rep.violation(v)
        rep.sample(sc)
    S.last_violations = []


def confirm(S, v):
    """replay the counterexample on the real build"""
    try:
        from mirsym import replay_net
        replay_net.confirm_choose(S.L, v)
    except ImportError:
        v.reproduced = None
