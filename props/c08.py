"""C08 - connections are isolated: none waits for another, however many arrive at once.   (base model of C20 as well)

BMC over the MIR of util/task_pool.rs: the pool's own constructor spawns the initial workers (their number is read from the
MIN_THREADS static in the MIR), a dispatcher performs n TaskPool::spawn calls (= n accepted connections) whose tasks never
return (long-lived keep-alive connections); dynamically spawned workers are thread slots activated by the spawn operation.
The burst starts from the idle state the pool reaches after start-up (all initial workers parked), which is itself computed
by running the start-up schedule through the same encoding.
"""
import z3, time, os
from mirsym.values import *
from mirsym.harness import Session
from mirsym.interp import Unsupported, PathAbort
from mirsym import bmc, sync
from mirsym.sync import Captured, TaskObj
from mirsym.report import Violation, is_open_known
from props.c07 import describe

LEVEL = 'model_checking'


def find_impl_fn(prog, selfty, method):
    c = prog.inherent.get((selfty, method))
    if not c:
        raise Unsupported('%s::%s not found' % (selfty, method))
    return c[0]


def make_task(kind, payload):
    return BoxObj(TaskObj(payload))


class PoolHooks:
    def __init__(self, tasks, workers):
        self.tasks = tasks
        self.workers = workers

    def state_vars(self, enc, k, v):
        for i in self.tasks:
            v('runs:%d' % i, z3.BitVecSort(4))
            v('disp:%d' % i, z3.BoolSort())
            v('done:%d' % i, z3.BoolSort())
        v('kf_enqueue_without_idle_waiter', z3.BoolSort())
        v('exited_with_work', z3.BoolSort())
        v('dispatch_woke_several', z3.BoolSort())
        v('foreign_task', z3.BoolSort())

    def initial(self, enc, S):
        c = []
        for i in self.tasks:
            c += [S['runs:%d' % i] == 0, z3.Not(S['disp:%d' % i]), z3.Not(S['done:%d' % i])]
        c += [z3.Not(S['kf_enqueue_without_idle_waiter']), z3.Not(S['exited_with_work']), z3.Not(S['foreign_task']),
              z3.Not(S['dispatch_woke_several'])]
        return c

    def apply_event(self, enc, ev, S, t, k, g, b):
        if ev.kind == 'observe':
            what = ev.extra
            if what == 'dispatched':
                for i in self.tasks:
                    S['disp:%d' % i] = z3.Or(S['disp:%d' % i], ev.args[0] == i)
            elif what == 'task_done':
                for i in self.tasks:
                    S['done:%d' % i] = z3.Or(S['done:%d' % i], ev.args[0] == i)
            return True
        return False

    def observe(self, enc, ev, S, t, k, g, b):
        if ev.kind == 'task_run':
            ok = z3.BoolVal(False)
            for i in self.tasks:
                hit = ev.args[0] == i
                ok = z3.Or(ok, hit)
                S['runs:%d' % i] = z3.If(hit, S['runs:%d' % i] + 1, S['runs:%d' % i])
            S['foreign_task'] = z3.Or(S['foreign_task'], z3.Not(ok))
        elif ev.kind == 'q_push' and t.name == 'disp':
            # known-finding predicate: the dispatcher enqueues while no worker is parked and still un-notified
            idle = []
            for u in enc.threads:
                if u.park_locs:
                    idle.append(z3.And(S['active:' + u.name], S['parked:' + u.name], z3.Not(S['notified:' + u.name])))
            anyidle = z3.Or(*idle) if idle else z3.BoolVal(False)
            S['kf_enqueue_without_idle_waiter'] = z3.Or(S['kf_enqueue_without_idle_waiter'], z3.Not(anyidle))
            self._before = {u.name: S['notified:' + u.name] for u in enc.threads if u.park_locs}
        elif ev.kind in ('notify_one', 'notify_all') and t.name == 'disp' and getattr(self, '_before', None) is not None and not getattr(enc, 'pool_dropping', False):
            # one queued connection must wake at most one idle worker (waking all of them restarts every idle timer)
            newly = [z3.And(S['notified:' + n], z3.Not(b0)) for n, b0 in self._before.items()]
            two = [z3.And(newly[i], newly[j]) for i in range(len(newly)) for j in range(i + 1, len(newly))]
            if two:
                S['dispatch_woke_several'] = z3.Or(S['dispatch_woke_several'], z3.Or(*two))
            self._before = None


def build_pool_model(S, n_dispatch, K, n_dyn=None, tasks_return=False, max_events=12, drop_pool=False, spurious=True,
                     worker_events=None):
    prog = S.prog
    f_new = find_impl_fn(prog, 'TaskPool', 'new')
    f_spawn = find_impl_fn(prog, 'TaskPool', 'spawn')
    objects = {}
    kinds = {'*': 1}
    makers = {'*': make_task}
    tasks = list(range(1, n_dispatch + 1))
    n_dyn = n_dispatch if n_dyn is None else n_dyn

    def spawn_arg(it, clo):
        # closure env of the worker: (sharing, initial_fn) in capture order; find the Option<Box<Task>>
        arg = None
        kind = 'init'
        for f in clo.fields:
            if isinstance(f, Enum) and f.ty == 'Option':
                if f.variant == 'Some':
                    kind = 'dyn'
                    inner = f.fields[0]
                    inner = inner.cell.v if isinstance(inner, BoxObj) else inner
                    arg = inner.tid
        return kind, arg

    def disp_seg(i):
        def prog(it, w):
            w.spawn_arg = spawn_arg
            if i == 0:
                pool = it.run_fn(f_new, [])
                objects.update(w.objects)
                w.emit('observe', 'obs', [bv(0)], extra='started')
                return
            w.recording = False
            pool = it.run_fn(f_new, [])
            w.held = []
            w.recording = True
            cell = Cell(pool)
            if i <= n_dispatch:
                it.run_fn(f_spawn, [Ref(cell), BoxObj(TaskObj(bv(i)))])
                w.emit('observe', 'obs', [bv(i)], extra='dispatched')
            else:
                it.drop_value(cell.v)
                w.emit('observe', 'obs', [bv(0)], extra='pool_dropped')
        return prog

    def worker_prog(kind, param):
        def prog(it, w):
            w.spawn_arg = spawn_arg
            w.recording = False
            clo = None
            try:
                if kind == 'init':
                    w.capture_spawn = 0
                    it.run_fn(f_new, [])
                else:
                    nmin = [0]
                    w.capture_spawn = None
                    pool = it.run_fn(f_new, [])
                    w.capture_spawn = w.spawn_count
                    it.run_fn(f_spawn, [Ref(Cell(pool)), BoxObj(TaskObj(param))])
            except Captured as c:
                clo = c.value
            if clo is None:
                raise PathAbort()
            w.capture_spawn = None
            w.held = []
            del w.trace[:]
            w.recording = True
            it.call_callable(clo, [])
        return prog

    me_w = worker_events or max_events
    tl = []
    encoded = set()
    dtrees = []
    nseg = 1 + n_dispatch + (1 if drop_pool else 0)
    for i in range(nseg):
        dt_ = bmc.unfold(S, 'disp.s%d' % i, disp_seg(i), max_events=30, elem_kinds=kinds, elem_makers=makers, tasks_return=tasks_return)
        if dt_.terms.get('frontier'):
            raise Unsupported('dispatcher program exceeds its event bound')
        encoded |= dt_.encoded
        dtrees.append(dt_)
    # how many initial workers does TaskPool::new start?  (= spawn events of the constructor segment)
    n_init = sum(1 for nd in dtrees[0].nodes if nd.kind == 'ev' and nd.ev.kind == 'spawn')
    tl.append(bmc.Thread('disp', dtrees))
    for j in range(n_init):
        tr = bmc.unfold(S, 'w%d' % j, worker_prog('init', None), max_events=me_w, elem_kinds=kinds, elem_makers=makers,
                        tasks_return=tasks_return)
        encoded |= tr.encoded
        tl.append(bmc.Thread('w%d' % j, tr, active=False, kind='init'))
    for j in range(n_dyn):
        param = z3.BitVec('x%d.init_task' % j, 64)
        tr = bmc.unfold(S, 'x%d' % j, worker_prog('dyn', param), max_events=me_w, elem_kinds=kinds, elem_makers=makers,
                        tasks_return=tasks_return)
        encoded |= tr.encoded
        tl.append(bmc.Thread('x%d' % j, tr, active=False, kind='dyn', param=param))
    hooks = PoolHooks(tasks, [t.name for t in tl[1:]])
    sym = [['w%d' % j for j in range(n_init)], ['x%d' % j for j in range(n_dyn)]]
    enc = bmc.Encoder(tl, objects, K, cap=n_dispatch + 1, spurious=spurious, hooks=hooks, symmetry=[g for g in sym if len(g) > 1])
    enc.encoded = encoded
    enc.n_init = n_init
    enc.tasks = tasks
    return enc, hooks


def startup_state(S, n_dispatch, n_dyn, max_events, tasks_return=False, drop_pool=False, worker_events=None):
    """run the start-up schedule (constructor, then every initial worker until it parks) through the encoding and return
    the state it ends in"""
    enc0, hooks = build_pool_model(S, n_dispatch, 1, n_dyn, tasks_return=tasks_return, max_events=max_events, drop_pool=drop_pool,
                                   spurious=False, worker_events=worker_events)
    n_init = enc0.n_init
    # dispatcher: one step per spawn (+ the observation rides with the last); worker: register, lock+pop+register-waiting, load+wait
    sched = ['disp'] * n_init
    for j in range(n_init):
        sched += ['w%d' % j] * 3
    enc = bmc.Encoder(enc0.threads, enc0.objects, len(sched), cap=enc0.cap, spurious=False, hooks=hooks)
    enc.use_clock = False
    enc.fixed_schedule = sched
    enc.build()
    SK = enc.S[enc.K]
    allparked = z3.And(*[SK['parked:w%d' % j] for j in range(n_init)])
    r, m, dt = enc.solve(allparked, timeout_ms=120000)
    if r != z3.sat:
        raise Unsupported('start-up schedule does not reach the idle state (%s): the worker start-up changed shape' % r)
    enc0.startup_ops = enc.trace_ops(m)
    return enc0, hooks, enc.final_state(m), enc.pinned_results(m), sched


def pool_queries(enc, kf_name, only=None):
    K = enc.K
    nf = z3.Not(enc.frontier_reached())
    SK = enc.S[K]
    qs = []
    stranded = []
    for k in [K]:    # stuttering is allowed, so a state reachable at any step is reachable at step K
        Sk = enc.S[k]
        qk = enc.quiescent(Sk)
        for i in enc.tasks:
            stranded.append(z3.And(qk, Sk['disp:%d' % i], Sk['runs:%d' % i] == 0))
    qs.append(('every-dispatched-connection-is-started/other-than-known', z3.Or(*stranded), [nf, z3.Not(SK[kf_name])]))
    qs.append(('every-dispatched-connection-is-started/known-finding-still-present', z3.Or(*stranded), [nf, SK[kf_name]]))
    twice = z3.Or(*[z3.UGE(SK['runs:%d' % i], 2) for i in enc.tasks] + [SK['foreign_task']])
    qs.append(('each-connection-served-by-exactly-one-worker', twice, [nf]))
    panics = [enc.at_term(t, enc.S[k], 'panic') for k in [K] for t in enc.threads]
    qs.append(('no-panic-in-pool-code', z3.Or(*panics), [nf]))
    qs.append(('a-dispatch-wakes-at-most-one-idle-worker', SK['dispatch_woke_several'], [nf]))
    qs.append(('witness/several-connections-started', z3.And(*[SK['runs:%d' % i] == 1 for i in enc.tasks[:3]]), [nf]))
    if only:
        qs = [q for q in qs if any(o in q[0] for o in only)]
    return qs


CONFIGS = {
    # name, dispatches, dynamic slots, K after start-up, worker event bound
    'quick': [('burst5-from-idle', 5, 2, 14, 12, ('is-started', 'no-panic', 'witness')),
              ('burst3-from-idle', 3, 1, 9, 12, ('exactly-one-worker', 'at-most-one-idle', 'witness'))],
    # burst5 with K=16 / 3 dynamic slots and burst6 with K=18 were tried: z3 returned unknown after 300 s per query on the
    # `is-started` obligations (exit 2), so the thorough tier keeps the bounds that are decided and adds the 4-dispatch
    # configuration and a longer burst from the saturated state
    'thorough': [('burst5-from-idle', 5, 2, 14, 12, ('is-started', 'no-panic', 'witness')),
                 ('burst4-from-idle', 4, 2, 12, 14, ('exactly-one-worker', 'at-most-one-idle', 'witness'))],
}
KNOWN = {'every-dispatched-connection-is-started/known-finding-still-present': 'dispatch-counts-woken-workers-as-idle'}


def run(L, rep, tier, seed):
    S = Session(L, rep, seed)
    rep.assumptions += [
        'E-sync models as C07 (App. C); thread::spawn activates a pre-declared thread slot; needing more slots than declared is an overflow (excluded and reported as a bound)',
        'tasks never return (long-lived keep-alive connections); the burst starts from the idle state reached by the pool start-up schedule',
        'identical workers: symmetry breaking (worker i+1 leaves its start location only after worker i)',
    ]
    for (name, n, ndyn, K0, me, only) in CONFIGS[tier]:
        t0 = time.time()
        res = None
        # the step bound is derived from the code: if the reachability witnesses are not found within K (a version of the pool
        # that needs more visible operations per dispatch), the bound is raised (twice at most) before giving up
        for K in (K0, K0 + 6, K0 + 12):
            try:
                enc0, hooks, st, pins, sched = startup_state(S, n, ndyn, me)
                enc = bmc.Encoder(enc0.threads, enc0.objects, K, cap=enc0.cap, spurious=True, hooks=hooks, symmetry=enc0.symmetry)
                enc.initial_override = st
                enc.tasks = enc0.tasks
                enc.use_clock = False        # tasks never return: no worker reaches a timed wait inside the bound
                enc.build()
            except Unsupported as e:
                rep.inconc('%s: unsupported construct: %s' % (name, e))
                res = None
                break
            rep.functions.update(enc0.encoded)
            qs = pool_queries(enc, 'kf_enqueue_without_idle_waiter', only)
            qs = [(a, b, list(c) + pins) for (a, b, c) in qs]
            wq = [q for q in qs if q[0].startswith('witness/')]
            if K != K0 + 12 and wq:
                wres = bmc.solve_many(enc, wq, timeout_ms=300000, seed=seed, jobs=2)
                if any(v != 'sat' for (_, v, _, _, _) in wres):
                    rep.notes.append('%s: witness not reachable within K=%d, raising the step bound' % (name, K))
                    continue
            res = bmc.solve_many(enc, qs, timeout_ms=300000, seed=seed, jobs=int(os.environ.get('VERIF_JOBS', '14')), extract=lambda e, m: e.replay_info(m))
            break
        if res is None:
            continue
        rep.states += sum(len(t.locs) for t in enc.threads)
        rep.transitions += len(enc.cmds)
        rep.bounds[name] = {'dispatches': n, 'initial_workers_from_MIR': enc0.n_init, 'dynamic_worker_slots': ndyn, 'K_steps_after_startup': K,
                            'startup_schedule_steps': len(sched), 'max_events_per_worker': me, 'commands': len(enc.cmds),
                            'lock_protected_objects': enc.protected, 'build_s': round(time.time() - t0, 1)}
        report_results(rep, 'C08', name, res, KNOWN, [name, n, ndyn, K], replayer=lambda v, info, so=enc0.startup_ops, n=n: replay_pool(L, v, rep, info, so, n))
    saturated_burst(L, S, rep, tier, seed)
    accept_path(L, rep, tier, seed)
    # worker bookkeeping (registrations balanced when a surplus worker retires): the dispatch decision relies on it
    from props import c20
    c20.worker_contract(L, rep, tier, seed, prop='C08')


def saturated_burst(L, S, rep, tier, seed):
    """the regime above the pool size: from a state in which every initial worker is serving a connection that stays open
    (found by the solver as ONE schedule from the idle state), two more connections arrive: each must still be started
    (each needs a thread of its own), whatever the interleaving of the two dispatches and the new workers"""
    name = 'burst2-from-saturated'
    me = 12
    KA, KB = (8, 10) if tier == 'quick' else (10, 14)
    t0 = time.time()
    try:
        probe, _, _, _, _ = startup_state(S, 1, 0, me)
        n_init = probe.n_init
        n = n_init + 2
        enc0, hooks, st, pins, sched = startup_state(S, n, 2, me)
    except Unsupported as e:
        rep.inconc('%s: unsupported construct: %s' % (name, e))
        return
    # the saturated state is reached connection by connection: for each of the first n_init dispatches the solver finds one
    # schedule (<= KA steps) after which that connection is being served and the next dispatch has not happened yet
    stA, pinsA, opsA = st, list(pins), list(enc0.startup_ops)
    tA = 0.0
    for i in range(1, n_init + 1):
        try:
            encA = bmc.Encoder(enc0.threads, enc0.objects, KA, cap=enc0.cap, spurious=False, hooks=hooks, symmetry=())
            encA.initial_override = stA
            encA.tasks = enc0.tasks
            encA.use_clock = False
            encA.build()
        except Unsupported as e:
            rep.inconc('%s: unsupported construct: %s' % (name, e))
            return
        SA = encA.S[KA]
        goal = z3.And(SA['runs:%d' % i] == 1, SA['disp:%d' % i], z3.Not(SA['disp:%d' % (i + 1)]), z3.Not(encA.frontier_reached()))
        r, m, dt = encA.solve(goal, timeout_ms=200000, seed=seed, extra=pinsA)
        rep.queries += 1
        rep.solver_seconds += dt
        tA += dt
        if r != z3.sat:
            rep.obligation(name + '/witness/saturated-state-reached', 'inconclusive', solver=str(r), seconds=round(tA, 1))
            rep.inconc('%s: no schedule of %d steps gets connection %d served from the state reached so far (%s): the pool changed shape'
                       % (name, KA, i, r))
            return
        stA = encA.final_state(m)
        pinsA += encA.pinned_results(m)
        opsA += encA.trace_ops(m)
    rep.obligation(name + '/witness/saturated-state-reached', 'holds', solver='sat', seconds=round(tA, 1))
    enc = bmc.Encoder(enc0.threads, enc0.objects, KB, cap=enc0.cap, spurious=True, hooks=hooks, symmetry=())
    enc.initial_override = stA
    enc.tasks = enc0.tasks
    enc.use_clock = False
    enc.build()
    rep.functions.update(enc0.encoded)
    SK = enc.S[KB]
    nf = z3.Not(enc.frontier_reached())
    late = [i for i in enc.tasks if i > n_init]
    stranded = z3.Or(*[z3.And(enc.quiescent(SK), SK['disp:%d' % i], SK['runs:%d' % i] == 0) for i in late])
    qs = [('every-connection-beyond-the-pool-size-is-started', stranded, [nf] + pinsA),
          ('each-connection-served-by-exactly-one-worker', z3.Or(*[z3.UGE(SK['runs:%d' % i], 2) for i in enc.tasks] + [SK['foreign_task']]), [nf] + pinsA),
          ('no-panic-in-pool-code', z3.Or(*[enc.at_term(t, SK, 'panic') for t in enc.threads]), [nf] + pinsA),
          ('witness/both-late-connections-started', z3.And(*[SK['runs:%d' % i] == 1 for i in late]), [nf] + pinsA)]
    res = bmc.solve_many(enc, qs, timeout_ms=300000, seed=seed, jobs=4, extract=lambda e, mm: e.replay_info(mm))
    rep.states += sum(len(t.locs) for t in enc.threads)
    rep.transitions += len(enc.cmds)
    rep.bounds[name] = {'initial_workers_from_MIR': n_init, 'connections_open_before_the_burst': n_init, 'dispatches_in_the_burst': 2, 'dynamic_worker_slots': 2,
                        'K_steps_per_connection_to_saturate (one schedule each, found by the solver)': KA, 'K_steps_of_the_burst': KB, 'build_s': round(time.time() - t0, 1)}
    report_results(rep, 'C08', name, res, {}, [name, n, 2, KB], replayer=lambda v, info: replay_pool(L, v, rep, info, opsA, n))


def report_results(rep, prop, name, res, known, cfg, replayer=None):
    for (qn, verdict, secs, tr, exx) in res:
        rep.queries += 1
        rep.solver_seconds += secs
        full = '%s/%s' % (name, qn)
        if qn.startswith('witness/'):
            rep.obligation(full, 'holds' if verdict == 'sat' else 'inconclusive', solver=verdict, seconds=round(secs, 1))
            if verdict != 'sat':
                rep.inconc('%s: reachability witness not found (%s): vacuity guard' % (full, verdict))
            elif tr:
                rep.sample({'witness': full, 'schedule': tr[:8]})
            continue
        if verdict == 'unsat':
            rep.obligation(full, 'unsat', seconds=round(secs, 1))
        elif verdict == 'sat':
            key = known.get(qn)
            rep.obligation(full, 'sat', seconds=round(secs, 1), known_finding=key)
            rep.sample({'violation': full, 'schedule': tr})
            v = Violation(prop, key, '%s: %s' % (full, describe(tr)), {'kind': 'schedule', 'config': cfg, 'query': qn, 'schedule': tr}, full)
            if not is_open_known(prop, key) and exx and replayer and os.environ.get('VERIF_NO_REPLAY') != '1':
                try:
                    replayer(v, exx)
                except Exception as e:
                    v.replay_note = 'schedule replay machinery failed: %r' % (e,)
            rep.violation(v)
        else:
            rep.obligation(full, 'unknown', seconds=round(secs, 1), solver=verdict)
            if not qn.endswith('known-finding-still-present'):
                rep.inconc('%s: solver returned %s' % (full, verdict))


def accept_path(L, rep, tier, seed):
    """the accept thread sets a connection up (RefinedTcpStream::new, ClientConnection::new) before handing it to the pool: that
    code must not wait for the client, or one silent connection stalls every later one. The socket model blocks on any read."""
    from props.connlib import Conv
    from mirsym.interp import Blocked
    S = Session(L, rep, seed)

    def h(ctx):
        ctx.event('witness', 'setup')
        try:
            cv = Conv(S, ctx, [], end='block')
            ok = True
            why = None
        except Blocked as b:
            ok = False
            why = b.what
        ctx.check_always(z3.BoolVal(ok), 'connection-setup-does-not-wait-for-the-client', lambda m: {'kind': 'accept-path', 'blocked_at': why})
        if ok:
            reads = sum(1 for e in cv.wire.log if e[0] == 'read')
            ctx.check_always(z3.BoolVal(reads == 0), 'connection-setup-reads-nothing', lambda m: {'kind': 'accept-path', 'reads': reads})
        return True
    S.run('accept-path', h, witnesses=['setup'], bound='RefinedTcpStream::new + ClientConnection::new on a connection whose client sends nothing')
    for (label, sc, st, nm) in S.last_violations[:1]:
        rep.violation(Violation('C08', None, 'accept-path/%s violated: %s' % (label, sc), sc, 'accept-path/' + label))


def replay_pool(L, v, rep, info, startup_ops, n, tasks='park', drop=False):
    """start-up prefix + counterexample schedule on the real task_pool.rs under the controlled runtime; the predicted set of
    (connection, worker) starts and the predicted parked threads must be observed"""
    from mirsym import replay_sched
    ops = list(startup_ops) + list(info['ops'])
    words = ['new'] + ['spawn %d' % i for i in range(1, n + 1)] + (['drop'] if drop else [])
    # only the dispatches the schedule actually starts are part of the program
    started = sum(1 for (t, o, p) in ops if t == 'disp' and o == 'observe' and p.get('what') == 'dispatched')
    disp_ops = [(t, o, p) for (t, o, p) in ops if t == 'disp']
    begun = started + (1 if disp_ops and not (disp_ops[-1][1] == 'observe') else 0)
    words = ['new'] + ['spawn %d' % i for i in range(1, min(n, begun) + 1)]
    threads = [('disp', ' ; '.join(words))]
    runs = sorted((p.get('id'), t) for (t, o, p) in ops if o == 'task_run' and p.get('id') is not None)
    pred = {'task_runs': runs} if runs or not any(o == 'task_run' for (_, o, _) in ops) else {}
    pred['parked'] = [x for x in info['parked'] if x != 'disp']
    v.scenario['threads'] = threads
    v.scenario['ops'] = ops
    replay_sched.confirm(L, v, 'pool', threads, dict(info, ops=ops), pred, extra={'tasks': tasks})
    if v.reproduced is not None:
        rep.replays += 1
