"""Response-side harness code (C04, C05 framing headers, C19): Response constructors and raw_print run from the MIR, writing into
an in-memory sink; the output is split by an independent reader that works on byte EXPRESSIONS (concrete structure, symbolic
body bytes), so "the client recovers exactly the body" is a z3 equality."""
import z3
from mirsym.values import *
from mirsym.harness import *
from mirsym.interp import Interp, RustPanic, Blocked, Unsupported
from mirsym.models import MODELS, as_slice, deref, DecStr, io_error
from mirsym.sync import SeqWorld, SEQ
from mirsym.env import find_fn
from props.connlib import K, CRLF, sym_token, SEQ_MODELS


class Sink(Opaque):
    """W: Write collecting pieces"""

    def __init__(self):
        Opaque.__init__(self, 'SinkW')
        self.pieces = []
        self.flushes = 0

    def write(self, it, data):
        if isinstance(data, Opaque) and data.kind in ('DecStr', 'HexStr'):
            self.pieces.append(data)
            return Ok(bv(1))
        s = as_slice(it, data)
        self.pieces.append(Slice(Buf(s.buf.arr, s.buf.len, s.buf.maxlen, 'const'), s.off, s.len))
        return Ok(s.len)

    def flush(self, it):
        self.flushes += 1
        return Ok(unit())


class PieceReader(Opaque):
    """R: Read delivering its data in pieces whose sizes are chosen per path (1, 2 or everything left)"""

    def __init__(self, ctx, data_exprs, pieces=True):
        Opaque.__init__(self, 'PieceReader')
        self.buf = buf_from_exprs(data_exprs, 'const') if data_exprs else Buf.from_bytes(b'')
        self.n = len(data_exprs)
        self.pos = 0
        self.pieces = pieces
        self.ctx = ctx
        self.reads = 0

    def read(self, it, buf):
        from mirsym.models import copy_bytes
        self.reads += 1
        rem = self.n - self.pos
        bl = conc(buf.len)
        if bl is None:
            raise Unsupported('PieceReader with symbolic buffer length')
        cap = min(rem, bl)
        if cap == 0:
            return Ok(bv(0))
        if self.pieces and self.reads <= 3:
            opts = [x for x in (1, 2) if x < cap] + [cap]
            k = opts[self.ctx.choose(len(opts), 'piece')]
        else:
            k = cap
        copy_bytes(it, buf, Slice(self.buf, bv(self.pos), bv(k)), bv(k))
        self.pos += k
        return Ok(bv(k))


def flatten(pieces):
    """list of byte expressions; DecStr/HexStr must be concrete"""
    out = []
    for p in pieces:
        if isinstance(p, Opaque) and p.kind == 'DecStr':
            c = conc(p.val)
            if c is None:
                raise Unsupported('symbolic integer text in the output')
            out += [bv(x, 8) for x in str(c).encode()]
            continue
        if isinstance(p, Opaque) and p.kind == 'HexStr':
            c = conc(p.val)
            if c is None:
                raise Unsupported('symbolic integer text in the output')
            out += [bv(x, 8) for x in ('%x' % c).encode()]
            continue
        n = conc(p.len)
        if n is None:
            raise Unsupported('symbolic-length piece in the output')
        for i in range(n):
            out.append(z3.simplify(p.at(i)))
    return out


class Malformed(Exception):
    pass


def cbytes(exprs, allow_sym=False):
    out = []
    for e in exprs:
        c = conc(e)
        if c is None:
            if allow_sym:
                out.append(0x7e)
                continue
            raise Malformed('symbolic byte where the structure must be concrete')
        out.append(c)
    return bytes(out)


def split_message(exprs, head_request=False):
    """independent HTTP/1.x response reader over byte expressions.
    -> dict(version, status, reason, headers [(name bytes, value exprs)], body exprs, rest exprs, framing)"""
    # find CRLFCRLF
    n = len(exprs)
    conc_or = [conc(e) for e in exprs]
    end = None
    for i in range(n - 3):
        if conc_or[i] == 13 and conc_or[i + 1] == 10 and conc_or[i + 2] == 13 and conc_or[i + 3] == 10:
            end = i
            break
    if end is None:
        raise Malformed('no end of header block')
    lines = []
    cur = []
    i = 0
    while i < end + 2:
        if conc_or[i] == 13 and conc_or[i + 1] == 10:
            lines.append(cur)
            cur = []
            i += 2
        else:
            cur.append(exprs[i])
            i += 1
    sl = cbytes(lines[0])
    parts = sl.split(b' ', 2)
    if len(parts) < 2 or not parts[0].startswith(b'HTTP/') or not parts[1].isdigit() or len(parts[1]) != 3 and False:
        raise Malformed('bad status line %r' % sl)
    status = int(parts[1])
    headers = []
    for l in lines[1:]:
        k = None
        for j, e in enumerate(l):
            if conc(e) == ord(':'):
                k = j
                break
        if k is None:
            raise Malformed('header line without colon')
        name = cbytes(l[:k], allow_sym=True)
        name_exprs = l[:k]
        val = l[k + 1:]
        while val and conc(val[0]) in (0x20, 0x09):
            val = val[1:]
        headers.append((name, val, name_exprs))
        for e in l:
            if conc(e) in (13, 10):
                raise Malformed('bare CR/LF inside a header line')
    hd = {}
    for nme, val, _ne in headers:
        hd.setdefault(nme.lower(), []).append(val)
    rest = exprs[end + 4:]
    framing = 'none'
    body = []
    if head_request or 100 <= status < 200 or status in (204, 304):
        framing = 'bodyless'
    elif b'transfer-encoding' in hd:
        framing = 'chunked'
        k = 0
        while True:
            # chunk-size line
            j = k
            while j + 1 < len(rest) and not (conc(rest[j]) == 13 and conc(rest[j + 1]) == 10):
                j += 1
            if j + 1 >= len(rest):
                raise Malformed('unterminated chunked body')
            szt = cbytes(rest[k:j]).split(b';')[0]
            try:
                sz = int(szt, 16)
            except ValueError:
                raise Malformed('bad chunk size %r' % szt)
            k = j + 2
            if sz == 0:
                if not (k + 1 < len(rest) + 1 and conc(rest[k]) == 13 and conc(rest[k + 1]) == 10):
                    raise Malformed('missing final CRLF of the chunked body')
                k += 2
                break
            body += rest[k:k + sz]
            if len(rest) < k + sz + 2 or conc(rest[k + sz]) != 13 or conc(rest[k + sz + 1]) != 10:
                raise Malformed('chunk data not followed by CRLF')
            k += sz + 2
        rest = rest[k:]
    elif b'content-length' in hd:
        framing = 'identity'
        if len(hd[b'content-length']) != 1:
            raise Malformed('several Content-Length headers')
        try:
            n = int(cbytes(hd[b'content-length'][0]))
        except ValueError:
            raise Malformed('bad Content-Length')
        if len(rest) < n:
            raise Malformed('body shorter than Content-Length')
        body = rest[:n]
        rest = rest[n:]
    else:
        framing = 'close-delimited'
        body = rest
        rest = []
    return {'version': parts[0], 'status': status, 'reason': parts[2] if len(parts) > 2 else b'', 'headers': headers, 'hd': hd, 'body': body,
            'rest': rest, 'framing': framing}


def header_struct(name_exprs, value_exprs):
    return mk_header(name_exprs, value_exprs)


class RespRun:
    """build a Response through the crate's constructors and print it"""

    def __init__(self, S, ctx):
        self.S = S
        self.ctx = ctx
        self.world = SeqWorld(ctx)
        self.it = Interp(S.prog, ctx, SEQ_MODELS)
        ctx.data['interp'] = self.it

    def f(self, ty, name, trait=None):
        return find_fn(self.it.prog, ty, name, trait)

    def new(self, status, headers, reader, data_length):
        dl = Some(bv(data_length)) if data_length is not None else NONE()
        return self.it.run_fn(self.f('Response', 'new'), [Struct('StatusCode', [bv(status, 16)]), VecObj(headers), reader, dl, NONE()])

    def raw_print(self, resp, version=(1, 1), req_headers=(), head=False, upgrade=None):
        sink = Sink()
        ver = Struct('HTTPVersion', [bv(version[0], 8), bv(version[1], 8)])
        up = Some(const_str(upgrade)) if upgrade else NONE()
        r = self.it.run_fn(self.f('Response', 'raw_print'), [resp, sink, ver, ListSlice(VecObj(list(req_headers))), z3.BoolVal(head), up])
        return r, sink
