"""C01 - pipelined responses leave in request order and are never interleaved.   (shared machinery for C06)

  kernel/BMC   util/sequential.rs from the MIR: n handler threads, each owning the i-th SequentialWriter and running a
               symbolic program of write / flush operations followed by the drop; z3 decides over all schedules that no
               operation of writer j reaches the shared sink before every writer i < j was dropped, and that no schedule
               deadlocks.
  pipeline/SE  client.rs + request.rs + response.rs + sequential.rs from the MIR: 3 pipelined requests answered in every
               order by respond / into_writer (several writes) / drop, each handler action being a logical thread that may
               park on its turn; the sink log must show the responses contiguous and in request order.
"""
import z3, time, os, itertools
from mirsym.values import *
from mirsym.harness import *
from mirsym.interp import Unsupported, RustPanic, Blocked
from mirsym import bmc, sync
from mirsym.sync import World, Co
from mirsym.report import Violation
from mirsym.env import find_fn
from props.connlib import *
from props.c02 import collect_simple
from props.c07 import describe
from props.c08 import report_results

LEVEL = 'model_checking'


class LogSink(Opaque):
    """the shared W behind Arc<Mutex<W>> in trace mode: its writes / flushes are visible operations"""

    def __init__(self):
        Opaque.__init__(self, 'LogSink')

    def write(self, it, data):
        w = sync.world(it)
        w.emit('sink_write', 'sink', [])
        from mirsym.models import as_slice
        return Ok(as_slice(it, data).len)

    def flush(self, it):
        w = sync.world(it)
        w.emit('sink_flush', 'sink', [])
        return Ok(unit())


class WHooks:
    def __init__(self, names):
        self.names = names
        self.idx = {n: i for i, n in enumerate(names)}

    def state_vars(self, enc, k, v):
        for n in self.names:
            v('wdropped:' + n, z3.BoolSort())
            v('wops:' + n, z3.BitVecSort(4))
        v('out_of_turn', z3.BoolSort())

    def initial(self, enc, S):
        c = [z3.Not(S['out_of_turn'])]
        for n in self.names:
            c += [z3.Not(S['wdropped:' + n]), S['wops:' + n] == 0]
        return c

    def apply_event(self, enc, ev, S, t, k, g, b):
        if ev.kind in ('sink_write', 'sink_flush'):
            i = self.idx.get(t.name)
            if i is not None:
                earlier = [S['wdropped:' + n] for n in self.names[:i]]
                S['out_of_turn'] = z3.Or(S['out_of_turn'], z3.Not(z3.And(*earlier)) if earlier else z3.BoolVal(False))
                S['wops:' + t.name] = S['wops:' + t.name] + 1
            return True
        if ev.kind == 'observe' and ev.extra == 'writer_dropped':
            S['wdropped:' + t.name] = z3.BoolVal(True)
            return True
        if ev.kind == 'observe':
            return True
        return False

    def observe(self, enc, ev, S, t, k, g, b):
        pass


def kernel_bmc(S, rep, tier, seed, prop='C01'):
    prog = S.prog
    n = 3 if tier == 'quick' else 4
    nops = 2
    K = 3 * n + 6 if tier == 'quick' else 3 * n + 8
    f_new = find_fn(prog, 'SequentialWriterBuilder', 'new')
    f_next = find_fn(prog, 'SequentialWriterBuilder', 'next', 'Iterator')
    f_write = find_fn(prog, 'SequentialWriter', 'write', 'Write')
    f_flush = find_fn(prog, 'SequentialWriter', 'flush', 'Write')
    objects = {}

    def init(it, w):
        w.recording = False
        b = it.run_fn(f_new, [LogSink()])
        cell = Cell(b)
        ws = []
        for i in range(n):
            o = it.run_fn(f_next, [Ref(cell, (), True)])
            ws.append(o.fields[0])
        w.recording = True
        w.held = []
        objects.update(w.objects)
        return cell, ws

    def handler(i):
        def prog_(it, w):
            cell, ws = init(it, w)
            wc = Cell(ws[i])
            for j in range(nops):
                op = it.ctx.choose(3, 'op')
                if op == 0:
                    break
                # the operation the handler starts (read back by the schedule replay; not a scheduling point)
                w.emit('observe', 'obs', [bv(op)], extra='op_write' if op == 1 else 'op_flush')
                if op == 1:
                    it.run_fn(f_write, [Ref(wc, (), True), const_str(b'x', False)])
                else:
                    it.run_fn(f_flush, [Ref(wc, (), True)])
            # the writer's last operation is done; dropping it is what may release the successor
            w.emit('observe', 'obs', [bv(i)], extra='writer_dropped')
            it.drop_value(wc.v)
        return prog_

    def builder(it, w):
        cell, ws = init(it, w)
        w.tname_post = 'b'
        o = it.run_fn(f_next, [Ref(cell, (), True)])
        it.drop_value(o.fields[0])

    names = ['h%d' % i for i in range(n)]
    threads = []
    encoded = set()
    kinds = {'*': 1}
    makers = {'*': lambda k, p: unit()}
    for i in range(n):
        tr = bmc.unfold(S, names[i], handler(i), max_events=30, elem_kinds=kinds, elem_makers=makers)
        encoded |= tr.encoded
        threads.append(bmc.Thread(names[i], tr))
    # channels created during init are live from the start
    for oid, d in objects.items():
        if d['kind'] == 'chan':
            d['init_live'] = True
    hooks = WHooks(names)
    enc = bmc.Encoder(threads, objects, K, cap=2, hooks=hooks, chan_cap=2)
    enc.use_clock = False
    enc.build()
    rep.functions.update(encoded)
    SK = enc.S[K]
    nf = z3.Not(enc.frontier_reached())
    alldone = z3.And(*[enc.at_term(t, SK, 'end') for t in enc.threads])
    qs = [
        ('no-operation-before-the-predecessors-are-dropped', SK['out_of_turn'], [nf]),
        ('no-deadlock', z3.And(enc.quiescent(SK), z3.Not(alldone)), [nf]),
        ('no-panic-in-sequential-code', z3.Or(*[enc.at_term(t, SK, 'panic') for t in enc.threads]), [nf]),
        ('witness/all-writers-finish-after-writing', z3.And(alldone, *[z3.UGT(SK['wops:' + nme], 0) for nme in names]), [nf]),
    ]
    res = bmc.solve_many(enc, qs, timeout_ms=300000, seed=seed, jobs=4, extract=lambda e, m: e.replay_info(m))
    rep.states += sum(len(t.locs) for t in enc.threads)
    rep.transitions += len(enc.cmds)
    rep.bounds['kernel'] = {'writers': n, 'ops_per_writer': '<=%d of write/flush, then drop' % nops, 'K_steps': K, 'commands': len(enc.cmds),
                            'lock_protected_objects': enc.protected}
    report_results(rep, prop, 'kernel', res, {}, ['sequential-writers', n, K], replayer=lambda v, info: replay_writers(S.L, v, rep, info, names))


def replay_writers(L, v, rep, info, names):
    """the counterexample schedule on the real sequential.rs under the controlled runtime: same sink order, same drops, same
    parked writers"""
    from mirsym import replay_sched
    ops = info['ops']
    threads = []
    for nme in names:
        words = []
        for (t, o, p) in ops:
            if t != nme:
                continue
            if o == 'observe' and p.get('what') == 'op_write':
                words.append('write')
            elif o == 'observe' and p.get('what') == 'op_flush':
                words.append('flush')
            elif o == 'observe' and p.get('what') == 'writer_dropped':
                words.append('drop')
        threads.append((nme, ' ; '.join(words) if words else 'sleep 1'))
    pred = {'sink': [(t, 'write' if o == 'sink_write' else 'flush') for (t, o, p) in ops if o in ('sink_write', 'sink_flush')],
            'parked': []}
    v.scenario['threads'] = threads
    v.scenario['ops'] = ops
    res = replay_sched.confirm(L, v, 'writers', threads, info, {'sink': pred['sink']}, extra={'n': len(names)})
    if v.reproduced is not None:
        rep.replays += 1


ACTIONS = ['respond', 'into_writer-2-writes', 'into_writer-write-flush-write', 'drop']


def pipeline_se(S, rep, tier, seed, prop='C01'):
    """3 pipelined requests; handler actions in every order; each action is a logical thread that may park on its turn"""
    n = 3
    perms = list(itertools.permutations(range(n)))

    def h(ctx):
        perm = perms[ctx.choose(len(perms), 'order')]
        acts = [ACTIONS[ctx.choose(len(ACTIONS), 'action')] for _ in range(n)]
        big = ctx.choose(2, 'big-body') == 1
        data = []
        for i in range(n):
            data += K(b'GET /%d HTTP/1.1\r\nHost: h\r\n\r\n' % i)
        cv = Conv(S, ctx, data, end='eof')
        reqs = []
        for i in range(n):
            r = cv.next()
            if r is None or r is PARKED:
                break
            reqs.append(r)
        sc = {'kind': 'conversation-handlers', 'order': list(perm), 'actions': acts, 'big': big, 'text': bytes(conc(x) for x in data).decode()}
        if len(reqs) != n:
            ctx.check_always(z3.BoolVal(False), 'all-pipelined-requests-delivered-before-any-answer', lambda m: sc)
            return None
        ctx.event('witness', 'perm%s' % (perm,))
        it = cv.it
        bodies = [(b'R%d-' % i) * (400 if big else 1) for i in range(n)]

        def act(i):
            a = acts[i]
            rq = reqs[i]
            if a == 'respond':
                return lambda: cv.respond(rq, cv.response('data', 200, bodies[i]))
            if a == 'drop':
                return lambda: it.drop_value(rq)

            def raw():
                from mirsym.models import writer_write
                w = it.run_fn(find_fn(it.prog, 'Request', 'into_writer'), [rq])
                wc = Cell(w)
                writer_write(it, Ref(wc, (), True), const_str(b'HTTP/1.1 200 OK\r\nContent-Length: %d\r\n\r\n' % len(bodies[i]), False))
                if a.endswith('write-flush-write'):
                    writer_write(it, Ref(wc, (), True), None, 'flush')
                writer_write(it, Ref(wc, (), True), const_str(bodies[i], False))
                it.drop_value(wc.v)
            return raw
        cos = []
        for i in perm:
            co = Co(act(i))
            cv.cos.append(co)
            try:
                co.resume()
            except Blocked as b:
                cv.blocked = b
            cos.append(co)
            # earlier parked handlers may be able to continue now
            for c2 in cos:
                if c2.state == 'parked':
                    try:
                        c2.resume()
                    except Blocked as b:
                        cv.blocked = b
        for _ in range(n):
            for c2 in cos:
                if c2.state == 'parked':
                    c2.resume()
        stuck = [c2 for c2 in cos if c2.state == 'parked']
        ctx.check_always(z3.BoolVal(not stuck and cv.blocked is None), 'no-handler-blocks-forever', lambda m: sc)
        out = cv.output()
        rs = parse_responses(out) if out is not None else None
        exp = [500 if acts[i] == 'drop' else 200 for i in range(n)]
        okc = rs is not None and [r.get('status') for r in rs] == exp
        ctx.check_always(z3.BoolVal(okc), 'one-response-per-request-in-request-order', lambda m: dict(sc, got=[r.get('status') for r in (rs or [])]))
        if okc:
            okb = all((r['body'] == bodies[i]) if acts[i] != 'drop' else (r['body'] == b'') for i, r in enumerate(rs))
            ctx.check_always(z3.BoolVal(okb), 'response-bytes-contiguous-not-interleaved', lambda m: sc)
        return True

    S.run('pipeline', h, witnesses=['perm(2, 1, 0)'], max_paths=20000,
          bound='3 pipelined requests, all 6 answer orders x actions %s per request x small / 1.2 KiB bodies (above the 1 KiB write buffer); '
                'handler actions interleave at blocking points only (finer interleavings: kernel/BMC)' % ACTIONS)
    collect_simple(S, rep, prop, 'pipeline')


def run(L, rep, tier, seed):
    S = Session(L, rep, seed)
    rep.assumptions += ['BufWriter<socket> is an order-preserving pipe (sizes below/above its 1 KiB buffer do not change order)',
                        'E-sync models (App. C); handler actions in the SE part are logical threads switching at blocking receives']
    kernel_bmc(S, rep, tier, seed)
    pipeline_se(S, rep, tier, seed)
