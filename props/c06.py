"""C06 - exactly one final response per delivered request; a dropped request gets a 500.

Request::{respond, into_writer, upgrade, as_reader, drop} and raw_print run from the MIR for every handler program built from
{read none / part / all of the body} x {respond, raw writer, upgrade, drop (= a panicking handler unwinding)} on two pipelined
requests answered in either order (handler actions are logical threads that park on their turn). The rendered sink log must
contain exactly one final response per request, in request order; the schedules of the writer kernel are C01's BMC.
"""
import z3, itertools
from mirsym.values import *
from mirsym.harness import *
from mirsym.interp import RustPanic, Blocked, Unsupported
from mirsym.report import Violation
from mirsym.sync import Co
from mirsym.env import find_fn
from props.connlib import *
from props.c02 import collect_simple
from props import c01

LEVEL = 'model_checking'


class FailingReader(Opaque):
    """R: Read that delivers `good` bytes and then fails with ErrorKind::Other"""

    def __init__(self, data, good):
        Opaque.__init__(self, 'FailingReader')
        self.data = data
        self.good = good
        self.pos = 0

    def read(self, it, buf):
        from mirsym.models import io_error
        if self.pos >= self.good:
            return Err(io_error('Other'))
        buf.buf.arr = z3.Store(buf.buf.arr, buf.off, self.data[self.pos])
        self.pos += 1
        return Ok(bv(1))


FINISH = ['respond', 'raw-writer', 'upgrade', 'drop', 'panic', 'respond-failing-reader']
READS = ['none', 'part', 'all']


def body_in_flight(S, rep, tier):
    """the request is answered / dropped while (part of) its declared body has not arrived and the client is waiting for the
    answer (an Expect: 100-continue client that never got its go-ahead; a large upload that is being refused): the final
    response must be on the wire without any further byte from the client -- a 500 that is only written after the body has
    been skipped never arrives"""
    SHAPES = [('expect-body-withheld', b'Expect: 100-continue\r\nContent-Length: 5\r\n', b''),
              ('large-body-partly-sent', b'Content-Length: 1500\r\n', b'0123456789'),
              ('chunked-body-partly-sent', b'Transfer-Encoding: chunked\r\n', b'5\r\nab')]
    FIN = ['drop', 'panic', 'respond']

    def h(ctx):
        name, hdrs, sent = SHAPES[ctx.choose(len(SHAPES), 'shape')]
        fin = FIN[ctx.choose(len(FIN), 'finish')]
        data = K(b'POST /0 HTTP/1.1\r\nHost: h\r\n' + hdrs + b'\r\n' + sent)
        cv = Conv(S, ctx, data, end='block')
        sc = {'kind': 'conversation', 'shape': name, 'finish': fin, 'text': bytes(conc(x) for x in data).decode('latin1'), 'half_close': False}
        rq = cv.next()
        if rq is None or rq is PARKED:
            ctx.check_always(z3.BoolVal(False), 'request-delivered', lambda m: sc)
            return None
        ctx.event('witness', name)
        ctx.event('witness', 'in-flight-' + fin)
        it = cv.it
        try:
            if fin == 'respond':
                cv.respond(rq, cv.response('data', 403, b'no'))
            elif fin == 'panic':
                ctx.data['panicking'] = True
                try:
                    it.drop_value(rq)
                finally:
                    ctx.data['panicking'] = False
            else:
                it.drop_value(rq)
        except Blocked as b:
            cv.blocked = b          # waiting for the rest of the body AFTER the answer is fine (the client closes or sends it)
        out = cv.output()
        rs = parse_responses(out) if out is not None else None
        finals = [r.get('status') for r in (rs or []) if (r.get('status') or 0) >= 200]
        want = [403] if fin == 'respond' else [500]
        ctx.check_always(z3.BoolVal(finals == want), 'final-response-does-not-wait-for-the-rest-of-the-body', lambda m: dict(sc, got=finals, expected=want))
        return True

    S.run('body-in-flight', h, witnesses=[x[0] for x in SHAPES] + ['in-flight-' + f for f in FIN], max_paths=2000,
          bound='one request whose body is withheld (Expect: 100-continue) or only partly sent (Content-Length 1500 / chunked), client waiting; '
                'finishing actions %s' % FIN)
    collect_simple(S, rep, 'C06', 'body-in-flight')


def run(L, rep, tier, seed):
    S = Session(L, rep, seed)
    rep.assumptions += ['a handler that panics while holding the request = the request is dropped during unwinding (same Drop code)',
                        'handler actions are logical threads switching at blocking receives; finer schedules of the writer kernel: C01 kernel/BMC']

    def h(ctx):
        order = [(0, 1), (1, 0)][ctx.choose(2, 'order')]
        fins = [FINISH[ctx.choose(len(FINISH), 'finish')] for _ in range(2)]
        rds = [READS[ctx.choose(len(READS), 'reads')] for _ in range(2)]
        head = ctx.choose(2, 'head') == 1
        expect = ctx.choose(2, 'expect') == 1 and order == (0, 1)
        m0 = b'HEAD' if head else b'POST'
        data = K(m0 + b' /0 HTTP/1.1\r\nHost: h\r\nContent-Length: 3\r\n' + (b'Expect: 100-continue\r\n' if expect else b'') + b'\r\nabc')
        data += K(b'POST /1 HTTP/1.1\r\nHost: h\r\nContent-Length: 2\r\n\r\nxy')
        if fins[0] == 'upgrade':
            # an upgraded connection carries no further requests: only one request in that conversation
            data = K(b'GET /0 HTTP/1.1\r\nHost: h\r\nConnection: upgrade\r\nUpgrade: x\r\n\r\n')
        cv = Conv(S, ctx, data, end='eof')
        reqs = []
        for i in range(2):
            r = cv.next()
            if r is None or r is PARKED:
                break
            reqs.append(r)
        n = len(reqs)
        late_second = expect and n == 1 and cv.parked is not None     # an expecting request is not read ahead (C11)
        if late_second:
            n = 2
        sc = {'kind': 'conversation-handlers', 'order': list(order), 'finish': fins, 'reads': rds, 'head': head, 'expect': expect,
              'text': bytes(conc(x) for x in data).decode('latin1')}
        want_n = 1 if fins[0] == 'upgrade' else 2
        if n != want_n:
            ctx.check_always(z3.BoolVal(False), 'requests-delivered', lambda m: dict(sc, delivered=n))
            return None
        it = cv.it
        for f in fins[:n]:
            ctx.event('witness', f)

        def act(i):
            rq = reqs[i]

            def go():
                cell = Cell(rq)
                if rds[i] != 'none':
                    r, tmp = cv.read_body(cell, 1 if rds[i] == 'part' else 64)
                    if rds[i] == 'all':
                        cv.read_body(cell, 64)
                f = fins[i]
                if f == 'respond':
                    cv.respond(cell.v, cv.response('data', 404 if i else 200, b'B%d' % i))
                elif f == 'drop':
                    it.drop_value(cell.v)
                elif f == 'panic':
                    # the handler panics while holding the request: it is dropped during unwinding
                    ctx.data['panicking'] = True
                    try:
                        it.drop_value(cell.v)
                    finally:
                        ctx.data['panicking'] = False
                elif f == 'respond-failing-reader':
                    # the response body reader fails (not a client-closing error) after the head was printed
                    from props.respcommon import RespRun
                    rdr = FailingReader([bv(0x41, 8), bv(0x42, 8)], 1)
                    resp = it.run_fn(find_fn(it.prog, 'Response', 'new'), [Struct('StatusCode', [bv(200, 16)]), VecObj([]), rdr, Some(bv(2)), NONE()])
                    r = cv.respond(cell.v, resp)
                elif f == 'raw-writer':
                    from mirsym.models import writer_write
                    w = it.run_fn(find_fn(it.prog, 'Request', 'into_writer'), [cell.v])
                    wc = Cell(w)
                    writer_write(it, Ref(wc, (), True), const_str(b'HTTP/1.1 299 Raw\r\nContent-Length: 0\r\n\r\n', False))
                    it.drop_value(wc.v)
                else:
                    resp = cv.response('empty', 101)
                    st = it.run_fn(find_fn(it.prog, 'Request', 'upgrade'), [cell.v, const_str(b'x'), resp])
                    it.drop_value(st)
            return go
        cos = []
        for i in order:
            if i >= n:
                continue
            if i == 1 and late_second:
                r = cv.resume()
                if r is None or r is PARKED:
                    ctx.check_always(z3.BoolVal(False), 'requests-delivered', lambda m: dict(sc, delivered=1))
                    return None
                reqs.append(r)
            co = Co(act(i))
            cv.cos.append(co)
            try:
                co.resume()
            except Blocked as b:
                cv.blocked = b
            cos.append(co)
            for c2 in cos:
                if c2.state == 'parked':
                    try:
                        c2.resume()
                    except Blocked as b:
                        cv.blocked = b
        for c2 in cos:
            if c2.state == 'parked':
                c2.resume()
        stuck = [c2 for c2 in cos if c2.state == 'parked']
        ctx.check_always(z3.BoolVal(not stuck and cv.blocked is None), 'no-handler-blocks-forever', lambda m: sc)
        out = cv.output()
        rs = parse_responses(out, heads=[head, False]) if out is not None else None
        finals = [r.get('status') for r in (rs or []) if (r.get('status') or 0) >= 200 or r.get('status') == 101]
        interim = [r.get('status') for r in (rs or []) if r.get('status') == 100]
        exp = []
        for i in range(n):
            exp.append({'respond': 404 if i else 200, 'drop': 500, 'panic': 500, 'raw-writer': 299, 'upgrade': 101,
                        'respond-failing-reader': 200}[fins[i]])
        if 'respond-failing-reader' in fins[:n]:
            # the truncated message cannot be split reliably: count status lines in the raw output instead
            raw = out or b''
            nstat = raw.count(b'HTTP/1.1 ') + raw.count(b'HTTP/1.0 ')
            ctx.check_always(z3.BoolVal(nstat == n + len(interim)), 'no-second-response-after-a-failed-one', lambda m: dict(sc, status_lines=nstat))
            return True
        ctx.check_always(z3.BoolVal(rs is not None and finals == exp), 'exactly-one-final-response-per-request-in-order',
                         lambda m: dict(sc, got=[r.get('status') for r in (rs or [])], expected=exp))
        return True

    S.run('programs', h, witnesses=FINISH, max_paths=40000,
          bound='two pipelined requests (first: POST or HEAD, with or without Expect: 100-continue; bodies of 3 and 2 bytes), answer order both '
                'ways, finishing actions %s, body reads %s' % (FINISH, READS))
    collect_simple(S, rep, 'C06', 'programs')
    body_in_flight(S, rep, tier)
    # a dropped (never written) writer does not hold up or overtake its neighbours: schedules of the kernel
    c01.kernel_bmc(S, rep, tier, seed, prop='C06')
