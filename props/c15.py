"""C15 - a client vanishing at any point is contained.

For each conversation of a small corpus (all framing kinds) the client's byte stream is cut after EVERY prefix length and
ends with an orderly close or a reset; responses are written to a socket that fails after a symbolic number of writes with
a client-closing error kind. client.rs / request.rs / readers run from the MIR.
"""
import z3
from mirsym.values import *
from mirsym.harness import *
from mirsym.interp import RustPanic, Blocked, Unsupported
from mirsym.report import Violation
from props.connlib import *
from props.c02 import collect_simple

LEVEL = 'model_checking'

CORPUS = {
    'get-get': [(b'GET /1 HTTP/1.1\r\nHost: h\r\n\r\n', 0), (b'GET /2 HTTP/1.1\r\nHost: h\r\n\r\n', 0)],
    'post-small-get': [(b'POST /1 HTTP/1.1\r\nContent-Length: 5\r\n\r\n', 5), (b'GET /2 HTTP/1.1\r\n\r\n', 0)],
    'post-large': [(b'POST /1 HTTP/1.1\r\nContent-Length: 1030\r\n\r\n', -1030)],
    'post-chunked-get': [(b'POST /1 HTTP/1.1\r\nTransfer-Encoding: chunked\r\n\r\n', -14), (b'GET /2 HTTP/1.1\r\n\r\n', 0)],
}
CHUNKED_BODY = b'3\r\nabc\r\n0\r\n\r\n'
ENDS = ['eof', 'ConnectionReset']
WRITE_FAULTS = [None, (0, 'BrokenPipe'), (2, 'ConnectionReset'), (5, 'ConnectionAborted')]


def run(L, rep, tier, seed):
    S = Session(L, rep, seed)
    rep.assumptions += ['client-closing error kinds: BrokenPipe, ConnectionReset, ConnectionAborted (what a real kernel reports is outside)',
                        'other connections keep being served: no state is shared between connection tasks (C08 covers the pool)']
    names = list(CORPUS)

    def h(ctx):
        name = names[ctx.choose(len(names), 'conversation')]
        parts = CORPUS[name]
        data = b''
        complete_at = []       # offset at which request i is complete enough to be delivered
        for head, blen in parts:
            data += head
            if blen > 0:
                data += b'x' * blen          # small body: buffered before delivery
                complete_at.append(len(data))
            elif blen < 0:
                complete_at.append(len(data))  # large / chunked: delivered once the head is in
                data += (CHUNKED_BODY if 'chunked' in head.decode().lower() else b'y' * (-blen))
            else:
                complete_at.append(len(data))
        if len(data) > 200 and tier == 'quick':
            cuts = list(range(0, 60)) + [len(data) - 500, len(data) - 1, len(data)]
        else:
            cuts = list(range(0, len(data) + 1))
        k = cuts[ctx.choose(len(cuts), 'cut')]
        end = ENDS[ctx.choose(len(ENDS), 'end')]
        wf = WRITE_FAULTS[ctx.choose(len(WRITE_FAULTS), 'write-fault')]
        cv = Conv(S, ctx, K(data[:k]), end=end)
        if wf:
            cv.wire.write_fault_after, cv.wire.write_fault_kind = wf
        sc = {'kind': 'conversation', 'conversation': name, 'cut': k, 'end': end, 'write_fault': wf, 'bytes_hex': data[:k].hex()}
        ctx.event('witness', name)
        ctx.event('witness', end)
        expected = sum(1 for c in complete_at if c <= k)
        got = 0
        try:
            for i in range(4):
                rq = cv.next()
                if rq is None or rq is PARKED:
                    break
                got += 1
                cell = Cell(rq)
                # read the body to its end (or to the error), bounded
                ended = False
                for j in range(6):
                    r, tmp = cv.read_body(cell, 600)
                    if r is None:
                        break
                    if r.variant == 'Err' or conc(concretize(ctx, r.fields[0])) == 0:
                        ended = True
                        break
                ctx.check_always(z3.BoolVal(ended and cv.blocked is None), 'body-read-ends', lambda m: sc)
                res = cv.respond(cell.v)
                ctx.check_always(z3.BoolVal(res is not None and res.variant == 'Ok'), 'answering-a-vanished-client-succeeds', lambda m: sc)
            cv.settle()
            cv.close()
            cv.finish_close()
        except RustPanic as p:
            ctx.check_always(z3.BoolVal(False), 'no-panic', lambda m: dict(sc, panic=p.msg[:200]))
            return None
        ctx.check_always(z3.BoolVal(got == expected), 'exactly-the-complete-requests-are-delivered', lambda m: dict(sc, delivered=got, expected=expected))
        ctx.check_always(z3.BoolVal(cv.blocked is None), 'nothing-blocks', lambda m: sc)
        return True

    S.run('vanishing', h, witnesses=names + ENDS, max_paths=80000,
          bound='corpus %s; every prefix length (large body: first 60 and last 2 cut points in quick tier); ends %s; write faults %s' % (names, ENDS, WRITE_FAULTS))
    collect_simple(S, rep, 'C15', 'vanishing')
