"""C14 - no client input aborts the process, panics a thread or forces a huge allocation.

Every function reachable from client bytes (client.rs, request.rs, readers, chunked_transfer::Decoder, and the response
path that looks at request headers) runs from the MIR on adversarial inputs. A feasible path into a panic edge is a
violation; every allocation primitive (vec::from_elem, reserve) must request at most 2 x bytes-received + 64 KiB.
"""
import z3
from mirsym.values import *
from mirsym.harness import *
from mirsym.interp import RustPanic, Blocked, Unsupported
from mirsym.report import Violation
from props.connlib import *
from props.c02 import collect_simple
from props.c16 import digit

LEVEL = 'model_checking'
SHAPES = ['arbitrary-head-bytes', 'content-length-huge', 'chunk-size-huge', 'te-qvalues', 'many-headers', 'answer-kinds', 'repeated-rejections']
HANDLERS = ['respond', 'drop', 'read1-respond', 'readall-respond', 'read1-drop']


def hexdigit(ctx):
    d = ctx.fresh_bv('hex', 8)
    ctx.add(z3.Or(z3.And(z3.UGE(d, 0x30), z3.ULE(d, 0x39)), z3.And(z3.UGE(d, 0x41), z3.ULE(d, 0x46)), z3.And(z3.UGE(d, 0x61), z3.ULE(d, 0x66))))
    return d


def run(L, rep, tier, seed):
    S = Session(L, rep, seed)
    rep.assumptions += ['peer_addr() failing implies the socket is unusable (the unwrap at client.rs read() is outside: environment assumption)',
                        'memory used by std internals (BufReader, Vec growth by push: amortised <= 2x received) is outside the allocation bound']

    def h(ctx):
        shape = SHAPES[ctx.choose(len(SHAPES), 'shape')]
        if shape == 'repeated-rejections':
            return rejections(ctx)
        answer = None
        hd = HANDLERS[ctx.choose(len(HANDLERS), 'handler')] if shape in ('content-length-huge', 'chunk-size-huge') else 'respond'
        end = 'eof'
        if shape == 'arbitrary-head-bytes':
            rl = [ctx.fresh_bv('any', 8) for _ in range(5)]
            hl = [ctx.fresh_bv('any', 8) for _ in range(4)]
            data = rl + CRLF + hl + CRLF + CRLF + K(b'GET /x HTTP/1.1\r\n\r\n')
        elif shape == 'content-length-huge':
            n = [1, 4, 10, 19, 20][ctx.choose(5, 'ndigits')]
            ds = [digit(ctx) for _ in range(n)]
            ctx.add(ds[0] != 0x30)
            data = K(b'POST /a HTTP/1.1\r\nContent-Length: ') + ds + CRLF + CRLF + [ctx.fresh_bv('b', 8) for _ in range(2)]
        elif shape == 'chunk-size-huge':
            n = [1, 8, 16, 17][ctx.choose(4, 'ndigits')]
            ds = [hexdigit(ctx) for _ in range(n)]
            data = K(b'POST /a HTTP/1.1\r\nTransfer-Encoding: chunked\r\n\r\n') + ds + CRLF + [ctx.fresh_bv('b', 8) for _ in range(2)]
        elif shape == 'te-qvalues':
            q = [b'=nan', b'=NaN', b'=inf', b'=-inf', b'=1e400', b'=-1', b'', b'=', b'x'][ctx.choose(9, 'q')]
            k = 3
            qn = [b'q', b'Q'][ctx.choose(2, 'qname')]
            te = b', '.join([b'a;' + qn + q, b'chunked;q=0.7', b'identity; ' + qn + (q if ctx.choose(2, 'two') else b'=0.5')])
            data = K(b'GET /a HTTP/1.1\r\nTE: ' + te + b'\r\n\r\n')
        elif shape == 'answer-kinds':
            # what the client chooses (method, version, TE) x what the application answers with: no combination may panic
            meth = [b'GET', b'HEAD'][ctx.choose(2, 'method')]
            ver = [b'HTTP/1.1', b'HTTP/1.0'][ctx.choose(2, 'version')]
            te = [b'', b'TE: identity\r\n', b'TE: chunked\r\n'][ctx.choose(3, 'te')]
            answer = [('data', 200), ('reader', 200), ('reader', 204), ('reader', 304), ('empty', 204), ('reader', 100)][ctx.choose(6, 'answer')]
            data = K(meth + b' /a ' + ver + b'\r\nHost: h\r\n' + te + b'\r\n')
        else:
            nh = 24 if tier == 'quick' else 64
            data = K(b'GET /a HTTP/1.1\r\n')
            for i in range(nh):
                data += K(b'X-%d: v\r\n' % i)
            data += CRLF
        cv = Conv(S, ctx, data, end=end)
        sc = lambda m: {'kind': 'conversation', 'shape': shape, 'handler': hd, 'text': model_bytes(m, data[:120]).decode('latin1'),
                        'bytes_hex': model_bytes(m, data).hex() if len(data) < 500 else None, 'half_close': True}
        ctx.event('witness', shape)

        def alloc_hook(it, n, where):
            lim = cv.wire.pos * 2 + 65536
            site = [f for f in it.callstack if 'drop' in f or 'new_request' in f or 'read' in f][-1:] or ['?']
            label = 'allocation-bounded-by-received-bytes'
            if 'equal_reader' in site[0] and 'drop' in site[0]:
                label = 'allocation-bounded/equal-reader-discard'
            ctx.check_always(z3.And(z3.ULE(n, lim), z3.ULE(cv.wire.pos, bv(1 << 40))), label,
                             lambda m: dict(sc(m), alloc_bytes=m.eval(n, True).as_long(), site=site[0]))
            if ctx.branch(z3.UGT(n, bv((1 << 63) - 1))):
                raise RustPanic('capacity overflow', tuple(it.callstack))
        ctx.data['alloc_hook'] = alloc_hook
        try:
            for i in range(3):
                rq = cv.next()
                if rq is None or rq is PARKED:
                    break
                cell = Cell(rq)
                if hd.startswith('read1'):
                    cv.read_body(cell, 1)
                elif hd.startswith('readall'):
                    for j in range(4):
                        r, tmp = cv.read_body(cell, 64)
                        if r is None or r.variant == 'Err' or conc(concretize(ctx, r.fields[0])) == 0:
                            break
                if hd.endswith('drop'):
                    cv.drop(cell.v)
                elif answer is not None:
                    cv.respond(cell.v, cv.response(answer[0], answer[1], b'0123456789'))
                else:
                    cv.respond(cell.v)
            cv.settle()
            cv.close()
            cv.finish_close()
        except RustPanic as p:
            label = 'no-panic'
            if 'total order' in p.msg:
                label = 'no-panic/te-sort'
            elif 'capacity overflow' in p.msg:
                label = 'no-panic/equal-reader-discard'
            ctx.check_always(z3.BoolVal(False), label, lambda m: dict(sc(m), panic=p.msg[:200], site=list(p.site or [])[-2:]))
            return None
        ctx.check_always(z3.BoolVal(True), 'no-panic', sc)
        return True

    def rejections(ctx):
        """stack use must not grow with the number of requests a connection carries: the deepest call nesting reached while k
        consecutive requests are rejected with 505 (the connection stays usable) is the same for k = 1 and k = 4 -- a retry by
        recursion would overflow the stack of the connection thread (abort of the whole process) on a long enough pipeline"""
        ctx.event('witness', 'repeated-rejections')
        depth = {}
        for k in (1, 4):
            data = K(b'GET /r HTTP/2.0\r\nHost: h\r\n\r\n' * k + b'GET /ok HTTP/1.1\r\nHost: h\r\n\r\n')
            cv = Conv(S, ctx, data, end='eof')
            cv.it.max_depth = 0
            rq = cv.next()
            depth[k] = cv.it.max_depth
            ok = rq is not None and rq is not PARKED
            ctx.check_always(z3.BoolVal(ok), 'request-after-rejections-is-delivered', lambda m: {'kind': 'conversation', 'text': bytes(conc(x) for x in data).decode()})
            if ok:
                cv.respond(rq)
            cv.settle()
            cv.close()
            cv.finish_close()
        ctx.check_always(z3.BoolVal(depth[4] <= depth[1]), 'stack-depth-independent-of-the-number-of-rejected-requests',
                         lambda m: {'kind': 'call-depth', 'deepest_call_nesting': depth, 'requests_rejected': [1, 4]})
        return True

    S.run('adversarial', h, witnesses=SHAPES, max_paths=60000,
          bound='shapes %s: 8+6 arbitrary head bytes; Content-Length of 1/4/10/19/20 symbolic digits with 2 body bytes then EOF; chunk size of '
                '1/8/16/17 symbolic hex digits; TE parameters q/Q with values nan/inf/-inf/1e400/-1/empty or without the equals sign; %d headers; handlers %s' % (SHAPES, 24 if tier == 'quick' else 64, HANDLERS))

    def known(label, sc):
        if label.endswith('equal-reader-discard'):
            return 'discard-allocates-declared-length'
        if label == 'no-panic/te-sort':
            return 'te-qvalue-nan-sort-panic'
        return None
    collect_simple(S, rep, 'C14', 'adversarial', known)
