"""C13 - behaviour depends on the bytes sent, not on how they were segmented.

Product query: the same symbolic byte stream is run twice through the MIR (client.rs, request.rs, readers, Decoder) with
two INDEPENDENT segmentations (every socket read returns a symbolic number of bytes); the delivered requests, the body
bytes seen by the same application read program, and the responses must coincide.
"""
import z3
from mirsym.values import *
from mirsym.harness import *
from mirsym.interp import RustPanic, Blocked, Unsupported
from mirsym.report import Violation
from props.connlib import *
from props.c02 import collect_simple
from props.c03 import build_request, read_all, sym_bytes, chunked_body

LEVEL = 'model_checking'
CONVS = ['cl-small+get', 'chunked+get', 'cl-1025+get', 'cl-1025-unread+get', 'malformed-second', 'truncated-small-body', 'expect-eager+get']


def make_conv(ctx, name, tier):
    if name == 'cl-small+get':
        data, body, declared, end, headlen = build_request(ctx, 'cl-small', tier)
    elif name == 'chunked+get':
        data, body, declared, end, headlen = build_request(ctx, 'chunked', tier)
    elif name in ('cl-1025+get', 'cl-1025-unread+get'):
        data, body, declared, end, headlen = build_request(ctx, 'cl-1025', tier, concrete_body=(name == 'cl-1025-unread+get'))
    elif name == 'expect-eager+get':
        # Expect: 100-continue whose body is sent without waiting for the interim response (allowed): how much of it has
        # arrived when the application asks for the body depends on the segmentation only
        data, body, declared, end, headlen = build_request(ctx, 'cl-small', tier, expect=True)
    elif name == 'malformed-second':
        data = K(b'GET /1 HTTP/1.1\r\nHost: h\r\n\r\n') + K(b'GET /2\r\n\r\n')
    else:
        data = K(b'POST /1 HTTP/1.1\r\nContent-Length: 6\r\n\r\n') + sym_bytes(ctx, 4)
    return data


TIMED = {'on': False}


def one_run(S, ctx, data, tag, reads, short, read_bodies=True):
    # the BufReader in front of the socket is modelled with its read-ahead buffer here (each refill is one socket read of up to
    # its capacity), so that segment boundaries are seen wherever the real code can see them: in bodies AND in the head
    ctx.data['bufreader_mode'] = 'buffered'
    cv = Conv(S, ctx, data, end='eof', short_reads=short)
    cv.wire.read_timeout = bool(TIMED['on'] and short)
    out = {'urls': [], 'bodies': [], 'blocked': False, 'panic': None}
    try:
        for i in range(3):
            rq = cv.next()
            if rq is None or rq is PARKED:
                break
            s = cv.summary(rq)
            out['urls'].append(s['url'])
            out.setdefault('methods', []).append(s['method'].variant if isinstance(s['method'], Enum) else '?')
            out.setdefault('nheaders', []).append(len(s['headers']))
            cell = Cell(rq)
            got, eofs, err = read_all(cv, ctx, cell, reads) if read_bodies else ([], 0, None)
            out['bodies'].append((got, eofs, err))
            cv.respond(cell.v)
        cv.settle()
        cv.close()
        cv.finish_close()
    except RustPanic as p:
        out['panic'] = p.msg
    out['blocked'] = cv.blocked is not None
    out['codes'] = [r.get('status') for r in (cv.responses() or [])]
    out['nreads'] = sum(1 for e in cv.wire.log if e[0] == 'read')
    out['segs'] = [conc(e[1]) for e in cv.wire.log if e[0] == 'read' and conc(e[1]) != 1][:8]
    return out


def run(L, rep, tier, seed):
    # pauses: they can only matter if the server sets a read timeout (or non-blocking mode) on the sockets it accepts; the
    # accept-thread closure is run from the MIR to find out; if it does, the segmented runs also let the client pause at a
    # segment boundary for longer than the timeout (the read then ends with WouldBlock)
    from props import c20
    n0 = len(rep.samples)
    c20.accept_loop(L, rep, tier, seed, prop='C13', options_only=True)
    opts = set()
    for smp in rep.samples[n0:]:
        if isinstance(smp, dict) and 'accepted_socket_options' in smp:
            for o in smp['accepted_socket_options']:
                opts.add(tuple(o))
    timed = sorted(o for o in opts if (o[0] in ('set_read_timeout',) and o[1] == 'some') or (o[0] == 'set_nonblocking' and 'True' in o[1]))
    TIMED['on'] = bool(timed)
    rep.bounds['socket-options-on-accepted-connections'] = [list(o) for o in sorted(opts)]
    S = Session(L, rep, seed)
    rep.assumptions += ['segmentation = the sizes of the socket reads behind the BufReader (modelled with its read-ahead buffer); a pause is '
                        'observable only through a read timeout / non-blocking mode set on the accepted socket, which is looked for in the '
                        'accept-thread closure (found: %s)' % (timed or 'none')]

    def h(ctx):
        name = CONVS[ctx.choose(len(CONVS), 'conversation')]
        reads = [[2, 64], [600, 600]][ctx.choose(2, 'reads')] if not name.startswith('cl-1025') else [600, 600]
        data = make_conv(ctx, name, tier)
        # reference run: every read returns everything that is available
        rb = name != 'cl-1025-unread+get'
        ref = one_run(S, ctx, data, 'ref', reads, False, rb)
        seg = one_run(S, ctx, data, 'seg', reads, 'choose', rb)
        ctx.event('witness', name)
        sc = lambda m: {'kind': 'conversation-two-segmentations', 'conversation': name, 'bytes_hex': model_bytes(m, data).hex() if len(data) < 400 else None,
                        'segments': seg['segs'], 'ref': {'codes': ref['codes'], 'n': len(ref['urls'])}, 'seg': {'codes': seg['codes'], 'n': len(seg['urls'])}}
        a, b = ref, seg
        same = [z3.BoolVal(len(a['urls']) == len(b['urls'])), z3.BoolVal(a['codes'] == b['codes']), z3.BoolVal(a.get('methods') == b.get('methods')),
                z3.BoolVal(a.get('nheaders') == b.get('nheaders')), z3.BoolVal(a['blocked'] == b['blocked']),
                z3.BoolVal(a['panic'] == b['panic'])]
        if len(a['urls']) == len(b['urls']):
            for ua, ub in zip(a['urls'], b['urls']):
                same.append(s_eq_slices(ua, ub))
            for (ga, ea, erra), (gb, eb, errb) in zip(a['bodies'], b['bodies']):
                same.append(z3.BoolVal(len(ga) == len(gb) and ea == eb and erra == errb))
                if len(ga) == len(gb):
                    same += [x == y for x, y in zip(ga, gb)]
        ctx.check_always(z3.And(*same), 'same-requests-bodies-responses', sc)
        return True

    S.run('segmentation', h, witnesses=CONVS, max_paths=80000,
          bound='conversations %s with symbolic content; reference run (maximal reads) vs every segmentation in which each of the first 3 '
                'body-phase socket reads delivers 1, 3 or all available bytes' % CONVS)
    collect_simple(S, rep, 'C13', 'segmentation')


def s_eq_slices(a, b):
    from mirsym.models import s_eq
    return s_eq(a, b)
