"""C10 - malformed or unsupported requests never reach the application and never hang.

One obligation per malformed class (B1): the offending head is never delivered; the client sees 400+close (malformed ASCII
head), 417+close (unsupported Expect), 505 with the connection remaining usable (version above 1.1), plain close
(non-ASCII); the connection thread never blocks; earlier pipelined requests are answered first.
ClientConnection::{read_next_line, read, next}, parse_request_line, parse_http_version, Header::from_str, new_request and
Response::raw_print (automatic responses through the sequential writers) are executed from the MIR.
"""
import z3
from mirsym.values import *
from mirsym.harness import *
from mirsym.report import Violation
from props.connlib import *
from props.c02 import collect_simple, validate_samples

LEVEL = 'model_checking'

CLASSES = ['rl-empty', 'rl-one-field', 'rl-two-fields', 'version-lowercase', 'version-1.2', 'version-garbage', 'version-2.0', 'version-3.0',
           'header-no-colon', 'nonascii-request-line', 'nonascii-header', 'expect-other']
EXPECT = {'rl-empty': 400, 'rl-one-field': 400, 'rl-two-fields': 400, 'version-lowercase': 400, 'version-1.2': 400, 'version-garbage': 400,
          'version-2.0': 505, 'version-3.0': 505, 'header-no-colon': 400, 'nonascii-request-line': None, 'nonascii-header': None,
          'expect-other': 417}
KNOWN = {'version-2.0': '505-self-deadlock', 'version-3.0': '505-self-deadlock'}


def offending_head(ctx, cls):
    tgt = K(b'/') + sym_token(ctx, 1, 'target', is_vchar)
    if cls == 'rl-empty':
        # zero request-line fields: an empty line where the request line should be
        return CRLF + K(b'Host: a\r\n\r\n')
    if cls == 'rl-one-field':
        return sym_token(ctx, 3, 'word') + CRLF + K(b'Host: a\r\n\r\n')
    if cls == 'rl-two-fields':
        return K(b'GET ') + tgt + CRLF + K(b'Host: a\r\n\r\n')
    if cls.startswith('version-'):
        if cls == 'version-lowercase':
            v = K(b'http/1.1')
        elif cls == 'version-1.2':
            v = K(b'HTTP/1.') + [ctx.fresh_bv('minor', 8)]
            ctx.add(z3.And(z3.UGE(v[-1], 0x32), z3.ULE(v[-1], 0x39)))
        elif cls == 'version-garbage':
            v = sym_token(ctx, 8, 'vers', is_vchar)
            for w in (b'HTTP/0.9', b'HTTP/1.0', b'HTTP/1.1', b'HTTP/2.0', b'HTTP/3.0'):
                ctx.add(not_equal_bytes(v, w))
        else:
            v = K(b'HTTP/' + cls[-3:].encode())
        return K(b'GET ') + tgt + K(b' ') + v + CRLF + K(b'Host: a\r\n\r\n')
    if cls == 'header-no-colon':
        line = sym_token(ctx, 3, 'hline', lambda c: z3.And(is_vchar(c), c != ord(':')))
        if ctx.choose(2, 'with-space'):
            line = line[:1] + K(b' ') + line[1:]
        return K(b'GET ') + tgt + K(b' HTTP/1.1\r\n') + line + CRLF + CRLF
    if cls == 'nonascii-request-line':
        x = ctx.fresh_bv('hi', 8)
        ctx.add(z3.UGE(x, 0x80))
        return K(b'GET /') + [x] + K(b' HTTP/1.1\r\nHost: a\r\n\r\n')
    if cls == 'nonascii-header':
        x = ctx.fresh_bv('hi', 8)
        ctx.add(z3.UGE(x, 0x80))
        where = ctx.choose(2, 'where')
        h = (K(b'X') + [x] + K(b': v')) if where == 0 else (K(b'X-A: v') + [x])
        return K(b'GET ') + tgt + K(b' HTTP/1.1\r\n') + h + CRLF + CRLF
    if cls == 'expect-other':
        name = case_variant(ctx, b'Expect')
        n = [3, 12][ctx.choose(2, 'vlen')]
        val = sym_token(ctx, n, 'expect', is_vchar)
        ctx.add(not_equal_nocase(val, b'100-continue'))
        # the expectation is refused whatever the (supported) version of the request
        ver = [b'HTTP/1.1', b'HTTP/1.0'][ctx.choose(2, 'expect-version')]
        ka = K(b'Connection: keep-alive\r\n') if ver == b'HTTP/1.0' and ctx.choose(2, 'keep-alive') else []
        return K(b'POST ') + tgt + K(b' ') + K(ver) + CRLF + name + K(b': ') + val + CRLF + ka + K(b'Content-Length: 0\r\n\r\n')
    raise ValueError(cls)


def run(L, rep, tier, seed):
    S = Session(L, rep, seed)
    rep.assumptions += ['socket = E-stream (client half-closes after its last byte); automatic responses are rendered from the sink log']
    classes = CLASSES

    def h(ctx):
        cls = classes[ctx.choose(len(classes), 'class')]
        pos = ctx.choose(2 if tier == 'quick' else 3, 'position')
        data = []
        if pos >= 1:
            data += K(b'GET /first HTTP/1.1\r\nHost: a\r\n\r\n')
        if pos >= 2:
            data += K(b'POST /first HTTP/1.1\r\nHost: a\r\nContent-Length: 2\r\n\r\nxy')
        waits = ctx.choose(2, 'client-waits') == 1
        if waits:
            # the client sends the offending head and then WAITS for the outcome with the connection open (nothing follows, no
            # half-close): the definitive response (or the close) must come without any further byte from the client
            data += (CRLF if cls == 'rl-empty' else offending_head(ctx, cls))
        else:
            data += offending_head(ctx, cls)
            data += K(b'GET /after HTTP/1.1\r\nHost: c\r\n\r\n')
        cv = Conv(S, ctx, data, end='block' if waits else 'eof')
        pred = {}
        delivered = []
        sc = lambda m: dict({'kind': 'conversation', 'class': cls, 'position': pos, 'text': model_bytes(m, data).decode('latin1'), 'client_waits': waits,
                             'mode': 'hold_first' if pos >= 1 else 'respond_all', 'half_close': not waits},
                            **({'predicted': dict(pred, urls=[model_slice(m, r['url']).decode('latin1') for r in delivered])} if pred else {}))
        reqs = drive(cv, hold=lambda i, rq: (pos >= 1 and i == 0))
        urls = [r['url'].concrete() for r in reqs]
        delivered += reqs
        ctx.event('witness', cls)
        pred['urls'] = [u.decode('latin1') if u is not None else None for u in urls]
        if cv.blocked is None:
            pred['codes'] = [r.get('status') for r in (cv.responses() or [])]
            m0 = ctx.model()
            if m0 is not None:
                ctx.event('sample', sc(m0))
        want_code = EXPECT[cls]
        delivered_bad = any(u not in (b'/first', b'/after') for u in urls)
        ctx.check_always(z3.BoolVal(not delivered_bad), cls + '/not-delivered', sc)
        if waits:
            # blocking on the silent client is fine only AFTER the outcome: the expected status is on the wire, or (non-ASCII)
            # the connection was closed
            rs = cv.responses() or []
            codes = [r.get('status') for r in rs]
            closed = bool(cv.shutdowns()) or cv.ended
            got_outcome = (want_code in codes) if want_code else closed
            ctx.check_always(z3.BoolVal(got_outcome), cls + '/definitive-outcome-without-further-input', sc)
            if want_code in (400, 417):
                ctx.check_always(z3.BoolVal(cv.blocked is None), cls + '/closes-after-the-error-response', sc)
            return True
        ctx.check_always(z3.BoolVal(cv.blocked is None), cls + '/never-hangs', sc)
        if cv.blocked is None and not delivered_bad:
            rs = cv.responses() or []
            codes = [r.get('status') for r in rs]
            want = [200] * pos
            if want_code == 505:
                want += [505, 200]            # connection stays usable: the following request is served
                ok_after = urls[-1:] == [b'/after']
            else:
                want += ([want_code] if want_code else [])
                ok_after = b'/after' not in urls
            ctx.check_always(z3.BoolVal(sorted(codes) == sorted(want) and ok_after), cls + '/definitive-outcome', sc)
            ctx.check_always(z3.BoolVal(codes == want or sorted(codes) != sorted(want)), cls + '/earlier-request-answered-first', sc)
        return True

    S.run('malformed', h, witnesses=classes, max_paths=40000,
          bound='offending head at pipeline position 0/1 (earlier request answered late), followed by a valid request; one '
                'representative shape per class with symbolic bytes (version token 8 bytes, Expect value 3/12 bytes)')

    def known(label, sc):
        cls = label.split('/')[0]
        if cls in KNOWN and label.endswith('/never-hangs'):
            return KNOWN[cls]
        if label == 'expect-other/earlier-request-answered-first':
            return '417-overtakes-earlier-response'
        return None
    collect_simple(S, rep, 'C10', 'malformed', known)
    validate_samples(S, rep, 'malformed')
