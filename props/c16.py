"""C16 - header syntax that enables request smuggling is rejected (400 + close), not interpreted.

Each class of offending syntax is one obligation: the head carrying it must not be delivered, the client must get a 400 and
nothing after the head may be parsed as a request. ClientConnection::{read,next}, Header/HeaderField::from_str, new_request
(Content-Length parse) are executed from the MIR.
"""
import z3
from mirsym.values import *
from mirsym.harness import *
from mirsym.report import Violation
from props.connlib import *
from props.c02 import collect_simple, validate_samples

LEVEL = 'model_checking'

CLASSES = ['ws-before-name', 'ws-inside-name', 'ws-before-colon', 'ws-only-line',
           'cl-empty', 'cl-plus', 'cl-minus', 'cl-nondigit', 'cl-mixed', 'cl-list', 'cl-inner-space', 'cl-overflow']
KNOWN = {
    'ws-before-name': 'leading-ws-header-line',
    'cl-plus': 'content-length-sign-prefix',
    'cl-empty': 'content-length-not-plain-decimal', 'cl-minus': 'content-length-not-plain-decimal',
    'cl-nondigit': 'content-length-not-plain-decimal', 'cl-mixed': 'content-length-not-plain-decimal',
    'cl-list': 'content-length-not-plain-decimal', 'cl-inner-space': 'content-length-not-plain-decimal',
    'cl-overflow': 'content-length-not-plain-decimal',
}


def digit(ctx, lo=0x30, hi=0x39):
    d = ctx.fresh_bv('digit', 8)
    ctx.add(z3.And(z3.UGE(d, lo), z3.ULE(d, hi)))
    return d


def offending_line(ctx, cls):
    ws = ctx.fresh_bv('ws', 8)
    ctx.add(z3.Or(ws == 0x20, ws == 0x09))
    if cls == 'ws-only-line':
        # a line that begins with whitespace and has nothing else: still a (degenerate) folded line, not the end of the head
        ws2 = ctx.fresh_bv('ws', 8)
        ctx.add(z3.Or(ws2 == 0x20, ws2 == 0x09))
        return [ws] if ctx.choose(2, 'two') == 0 else [ws, ws2]
    if cls.startswith('ws-'):
        which = ctx.choose(3, 'hname')
        if which == 0:
            name = case_variant(ctx, b'Content-Length')
            # a concrete small length keeps the stream layout concrete (the value itself is irrelevant to the syntax error)
            val = K([b'0', b'4'][ctx.choose(2, 'clval')])
        elif which == 1:
            name = case_variant(ctx, b'Transfer-Encoding')
            val = K(b'chunked')
        else:
            name = sym_token(ctx, 2, 'xname')
            val = sym_token(ctx, 1, 'xval', is_vchar)
        if cls == 'ws-before-name':
            return [ws] + name + K(b': ') + val
        if cls == 'ws-inside-name':
            cut = 1 + ctx.choose(len(name) - 1, 'cut') if len(name) <= 3 else [1, len(name) // 2, len(name) - 1][ctx.choose(3, 'cut')]
            return name[:cut] + [ws] + name[cut:] + K(b': ') + val
        return name + [ws] + K(b': ') + val
    name = case_variant(ctx, b'Content-Length')
    if cls == 'cl-empty':
        val = []
    elif cls == 'cl-plus':
        val = K(b'+') + K([b'0', b'4', b'12'][ctx.choose(3, 'clval')])
    elif cls == 'cl-minus':
        val = K(b'-') + [digit(ctx)]
    elif cls == 'cl-nondigit':
        x = ctx.fresh_bv('x', 8)
        ctx.add(z3.And(is_vchar(x), z3.Not(z3.And(z3.UGE(x, 0x30), z3.ULE(x, 0x39))), x != ord('+')))
        val = [x]
    elif cls == 'cl-mixed':
        x = ctx.fresh_bv('x', 8)
        ctx.add(z3.And(is_vchar(x), z3.Not(z3.And(z3.UGE(x, 0x30), z3.ULE(x, 0x39)))))
        val = [digit(ctx), x] if ctx.choose(2, 'order') else [digit(ctx), x, digit(ctx)]
    elif cls == 'cl-list':
        val = [digit(ctx)] + K(b',') + ([ws] if ctx.choose(2, 'sp') else []) + [digit(ctx)]
    elif cls == 'cl-inner-space':
        val = [digit(ctx), ws, digit(ctx)]
    else:
        # numerically above usize::MAX = 18446744073709551615 : 20 digits starting with 2..9, or 21 digits
        if ctx.choose(2, 'len21'):
            val = [digit(ctx, 0x31)] + [digit(ctx) for _ in range(20)]
        else:
            val = [digit(ctx, 0x32)] + [digit(ctx) for _ in range(19)]
    return name + K(b': ') + val


def run(L, rep, tier, seed):
    S = Session(L, rep, seed)
    rep.assumptions += ['socket = E-stream; std string/integer parsing per E-str (usize::from_str accepts a leading "+")']
    classes = CLASSES

    def h(ctx):
        cls = classes[ctx.choose(len(classes), 'class')]
        pos = ctx.choose(2 if tier == 'quick' else 3, 'position')
        line = offending_line(ctx, cls)
        data = []
        if pos >= 1:
            data += K(b'GET /first HTTP/1.1\r\nHost: a\r\n\r\n')
        if pos >= 2:
            data += K(b'POST /first HTTP/1.1\r\nHost: a\r\nContent-Length: 2\r\n\r\nxy')
        other_first = ctx.choose(2, 'other-header-first') == 1
        data += K(b'POST /victim HTTP/1.1\r\n')
        if other_first:
            data += K(b'Host: b\r\n')
        data += line + CRLF
        if not other_first:
            data += K(b'Host: b\r\n')
        data += CRLF
        smuggled = K(b'GET /smuggled HTTP/1.1\r\nHost: c\r\n\r\n')
        data += smuggled
        cv = Conv(S, ctx, data, end='eof')
        pred = {}
        delivered = []
        sc = lambda m: dict({'kind': 'conversation', 'class': cls, 'position': pos, 'text': model_bytes(m, data).decode('latin1'),
                             'mode': 'hold_first' if pos >= 1 else 'respond_all'}, **({'predicted': dict(pred, urls=[model_slice(m, r['url']).decode('latin1') for r in delivered])} if pred else {}))
        reqs = drive(cv, hold=lambda i, rq: (pos >= 1 and i == 0))
        urls = [r['url'].concrete() for r in reqs]
        delivered += reqs
        ctx.event('witness', cls)
        pred['urls'] = [u.decode('latin1') if u is not None else None for u in urls]
        if cv.blocked is None:
            pred['codes'] = [r.get('status') for r in (cv.responses() or [])]
            m0 = ctx.model()
            if m0 is not None:
                ctx.event('sample', sc(m0))
        delivered_victim = b'/victim' in urls
        delivered_smuggled = b'/smuggled' in urls
        first_ok = urls[:pos] == [b'/first'] * pos
        ctx.check_always(z3.BoolVal(first_ok), cls + '/earlier-request-still-served', sc)
        ctx.check_always(z3.BoolVal(not delivered_victim and not delivered_smuggled and cv.blocked is None), cls, sc)
        if not delivered_victim and not delivered_smuggled:
            rs = cv.responses()
            codes = [r.get('status') for r in (rs or [])]
            want = [200] * pos + [400]
            ctx.check_always(z3.BoolVal(codes == want), cls + '/answered-400-then-nothing', sc)
        return True

    S.run('reject', h, witnesses=classes, max_paths=40000,
          bound='offending line at pipeline position 0/1, before/after another header, followed by a would-be request; '
                'names Content-Length / Transfer-Encoding (any letter case) / arbitrary 2-byte token; SP or HTAB; '
                'Content-Length values: one representative shape per class with symbolic digits/bytes (overflow: 20-21 digits)')

    def known(label, sc):
        return KNOWN.get(label.split('/')[0]) if '/' not in label else None
    collect_simple(S, rep, 'C16', 'reject', known)
    validate_samples(S, rep, 'reject')
