"""C18 - 100 Continue is sent exactly when the application first asks for the body.

new_request (Expect recognition, no pre-read), Request::{as_reader, respond, drop} and Response::raw_print run from the MIR.
The socket model WITHHOLDS the body until the sink log contains the interim response, so "the body is then readable in
full" is an assertion that no read blocks.
"""
import z3
from mirsym.values import *
from mirsym.harness import *
from mirsym.report import Violation
from props.connlib import *
from props.c02 import collect_simple
from props.c03 import build_request, read_all

LEVEL = 'model_checking'
FRAMINGS = ['cl0', 'cl-small', 'cl-1025', 'chunked']
PROGRAMS = ['answer-without-reading', 'ask-once-read-all', 'ask-three-times', 'ask-once-read-part', 'drop-without-reading']


def count_100(cv):
    out = cv.output()
    rs = parse_responses(out) if out is not None else None
    if rs is None:
        return None, None
    codes = [r.get('status') for r in rs]
    return codes.count(100), codes


def run(L, rep, tier, seed):
    S = Session(L, rep, seed)
    rep.assumptions += ['the client model sends the body only after it has seen "HTTP/1.1 100" when it announced Expect: 100-continue']

    def h(ctx):
        fr = FRAMINGS[ctx.choose(len(FRAMINGS), 'framing')]
        expect = ctx.choose(2, 'expect') == 1
        prog = PROGRAMS[ctx.choose(len(PROGRAMS), 'program')]
        data, body, declared, end, headlen = build_request(ctx, fr, tier, expect=expect, follow=False)
        cv = Conv(S, ctx, data, end='block', short_reads=False)
        if expect:
            def gate(w):
                p = conc(w.pos)
                if p is None or p < headlen:
                    return True
                out = render_log(w)
                if out is not None and b'HTTP/1.1 100' in out:
                    return True
                # a final response without the interim one: the client gives up sending the body and half-closes
                rs = parse_responses(out) if out is not None else []
                if any((r.get('status') or 0) >= 200 for r in rs):
                    return 'eof'
                return False
            cv.wire.gate = gate
        sc = lambda m: {'kind': 'conversation', 'framing': fr, 'expect': expect, 'program': prog,
                        'bytes_hex': model_bytes(m, data).hex() if len(data) < 400 else None, 'text': model_bytes(m, data[:160]).decode('latin1')}
        ctx.event('witness', prog)
        ctx.event('witness', 'expect' if expect else 'no-expect')
        rq = cv.next()
        if rq is None or rq is PARKED:
            ctx.check_always(z3.BoolVal(False), 'request-delivered-without-waiting-for-the-body', sc)
            return None
        n0, _ = count_100(cv)
        ctx.check_always(z3.BoolVal(n0 == 0), 'no-interim-response-before-the-application-asks', sc)
        cell = Cell(rq)
        got = None
        if prog.startswith('ask'):
            cv.as_reader(cell)
            n1, _ = count_100(cv)
            ctx.check_always(z3.BoolVal(n1 == (1 if expect else 0)), 'interim-response-at-first-body-access-iff-expected', sc)
            if prog == 'ask-three-times':
                cv.as_reader(cell)
                cv.as_reader(cell)
            if prog == 'ask-once-read-part':
                if body:
                    r, tmp = cv.read_body(cell, 1)
                    ctx.check_always(z3.BoolVal(r is not None and r.variant == 'Ok'), 'body-readable-after-interim-response', sc)
            else:
                got, eofs, err = read_all(cv, ctx, cell, [600, 600])
                ok = err is None and len(got) == len(body)
                ctx.check_always(z3.BoolVal(ok), 'body-readable-in-full-after-interim-response', sc)
                if ok and body:
                    ctx.check_always(z3.And(*[g == b for g, b in zip(got, body)]), 'body-bytes', sc)
        if prog == 'drop-without-reading':
            cv.drop(cell.v)
        else:
            cv.respond(cell.v)
        n2, codes = count_100(cv)
        want100 = 1 if (expect and prog.startswith('ask')) else 0
        final = [c for c in (codes or []) if c is not None and c >= 200]
        ctx.check_always(z3.BoolVal(n2 == want100 and (codes or [None])[0] == (100 if want100 else final[0] if final else None)),
                         'exactly-one-interim-response-before-the-final-one-iff-asked', sc)
        ctx.check_always(z3.BoolVal(len(final) == 1 and final[0] == (500 if prog == 'drop-without-reading' else 200)), 'one-final-response', sc)
        ctx.check_always(z3.BoolVal(cv.blocked is None), 'nothing-blocks', sc)
        return True

    S.run('continue', h, witnesses=PROGRAMS + ['expect', 'no-expect'], max_paths=60000,
          bound='Expect present (any letter case) / absent x framing %s x program %s' % (FRAMINGS, PROGRAMS))
    collect_simple(S, rep, 'C18', 'continue')
