#!/bin/sh
# offline setup: verify the pre-installed toolchain pieces the checks use; nothing is fetched or built here
set -e
cd "$(dirname "$0")"
/opt/veriftools/pyvenv/bin/python -c "import z3; assert z3.get_version() >= (4, 8)"
cargo +nightly --version >/dev/null
rustc +nightly --version >/dev/null
/opt/veriftools/pyvenv/bin/python -m compileall -q mirsym props >/dev/null
mkdir -p evidence
echo "setup ok"
