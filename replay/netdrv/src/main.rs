//! netdrv: replay one concrete client/handler scenario against the real
//! tiny_http library over loopback TCP and print what was observed.
//!
//! usage: netdrv <scenario-file>
//!
//! Scenario file: one `key=value` per line (unknown keys ignored), see
//! /verif/mirsym/replay_net.py for the description of keys and output records.

use std::io::{Read, Write};
use std::net::{Shutdown, TcpStream};
use std::panic::{self, AssertUnwindSafe};
use std::sync::atomic::{AtomicBool, AtomicUsize, Ordering};
use std::sync::{mpsc, Arc, Mutex};
use std::thread;
use std::time::{Duration, Instant};

use tiny_http::{Request, Response, Server};

// ---------------------------------------------------------------- output

static OUT_LOCK: Mutex<()> = Mutex::new(());
static PANICS: Mutex<Vec<String>> = Mutex::new(Vec::new());
static FINISHING: AtomicBool = AtomicBool::new(false);

/// Time (ms) the client keeps listening after wait_ms to observe the effect of
/// the final drop of unanswered requests (reported as CLIENT_LATE_* records).
const LATE_MS: u64 = 250;
/// The final drop of pending requests happens this long after wait_ms, so that
/// its effect is never mixed up with what the client saw before wait_ms.
const DROP_DELAY_MS: u64 = 50;

/// Number of respond() calls running on helper threads.
static RESPONDERS: AtomicUsize = AtomicUsize::new(0);

fn out(line: &str) {
    let _g = OUT_LOCK.lock().unwrap_or_else(|e| e.into_inner());
    let so = std::io::stdout();
    let mut h = so.lock();
    let _ = writeln!(h, "{}", line);
    let _ = h.flush();
}

fn hex(b: &[u8]) -> String {
    const D: &[u8; 16] = b"0123456789abcdef";
    let mut s = String::with_capacity(b.len() * 2);
    for &x in b {
        s.push(D[(x >> 4) as usize] as char);
        s.push(D[(x & 15) as usize] as char);
    }
    s
}

fn unhex(s: &str) -> Vec<u8> {
    let cs: Vec<u8> = s
        .bytes()
        .filter_map(|c| match c {
            b'0'..=b'9' => Some(c - b'0'),
            b'a'..=b'f' => Some(c - b'a' + 10),
            b'A'..=b'F' => Some(c - b'A' + 10),
            _ => None,
        })
        .collect();
    cs.chunks(2)
        .filter(|p| p.len() == 2)
        .map(|p| (p[0] << 4) | p[1])
        .collect()
}

fn ms(start: Instant) -> u64 {
    start.elapsed().as_millis() as u64
}

fn one_line(s: &str) -> String {
    s.replace('\\', "\\\\").replace('\n', "\\n").replace('\r', "\\r")
}

/// Print the recorded panics and DONE, then exit.  Only the first caller
/// proceeds; a concurrent second caller just sleeps until the process ends.
fn finish(code: i32) -> ! {
    if FINISHING.swap(true, Ordering::SeqCst) {
        loop {
            thread::sleep(Duration::from_secs(3600));
        }
    }
    let ps: Vec<String> = PANICS.lock().unwrap_or_else(|e| e.into_inner()).clone();
    for p in ps {
        out(&format!("PANIC {}", p));
    }
    out("DONE");
    std::process::exit(code);
}

// ---------------------------------------------------------------- config

#[derive(Clone, Copy, PartialEq, Debug)]
enum Mode {
    RespondAll,
    HoldFirst,
    DropAll,
    NeverAnswer,
    ReadThenRespond,
}

#[derive(Clone, Copy, PartialEq, Debug)]
enum RecvMode {
    Recv,
    RecvTimeout,
    TryRecv,
}

#[derive(Clone, Debug)]
struct Cfg {
    bytes: Vec<u8>,
    segs: Vec<usize>,
    half_close: bool,
    close_after_send_ms: Option<u64>,
    wait_ms: u64,
    mode: Mode,
    hold_ms: u64,
    status: u16,
    body: Vec<u8>,
    read_sizes: Vec<usize>,
    recv: RecvMode,
}

fn num_list(v: &str) -> Vec<usize> {
    v.split(',')
        .filter_map(|x| x.trim().parse::<usize>().ok())
        .collect()
}

fn parse_cfg(text: &str) -> Cfg {
    let mut c = Cfg {
        bytes: Vec::new(),
        segs: Vec::new(),
        half_close: false,
        close_after_send_ms: None,
        wait_ms: 1500,
        mode: Mode::RespondAll,
        hold_ms: 400,
        status: 200,
        body: b"hello".to_vec(),
        read_sizes: Vec::new(),
        recv: RecvMode::RecvTimeout,
    };
    for line in text.lines() {
        let line = line.trim();
        if line.is_empty() || line.starts_with('#') {
            continue;
        }
        let (k, v) = match line.find('=') {
            Some(p) => (line[..p].trim(), line[p + 1..].trim()),
            None => continue,
        };
        match k {
            "bytes" => c.bytes = unhex(v),
            "segs" => c.segs = num_list(v),
            "half_close" => c.half_close = v == "1" || v == "true",
            "close_after_send_ms" => c.close_after_send_ms = v.parse().ok(),
            "wait_ms" => c.wait_ms = v.parse().unwrap_or(c.wait_ms),
            "mode" => {
                c.mode = match v {
                    "respond_all" => Mode::RespondAll,
                    "hold_first" => Mode::HoldFirst,
                    "drop_all" => Mode::DropAll,
                    "never_answer" => Mode::NeverAnswer,
                    "read_then_respond" => Mode::ReadThenRespond,
                    _ => {
                        out(&format!("CFG_ERR unknown mode {}", one_line(v)));
                        c.mode
                    }
                }
            }
            "hold_ms" => c.hold_ms = v.parse().unwrap_or(c.hold_ms),
            "status" => c.status = v.parse().unwrap_or(c.status),
            "body" => c.body = unhex(v),
            "read_sizes" => c.read_sizes = num_list(v),
            "recv" => {
                c.recv = match v {
                    "recv" => RecvMode::Recv,
                    "recv_timeout" => RecvMode::RecvTimeout,
                    "try_recv" => RecvMode::TryRecv,
                    _ => {
                        out(&format!("CFG_ERR unknown recv {}", one_line(v)));
                        c.recv
                    }
                }
            }
            _ => {}
        }
    }
    c
}

// ---------------------------------------------------------------- client

struct Pump {
    start: Instant,
    total: usize,
    eof: bool,
    err: Option<String>,
    tag: &'static str,
}

impl Pump {
    /// Read from the socket until `until_ms` (since start) or EOF/error.
    fn pump(&mut self, s: &mut TcpStream, until_ms: u64) {
        let mut buf = vec![0u8; 65536];
        while !self.eof {
            let now = ms(self.start);
            if now >= until_ms {
                return;
            }
            let to = (until_ms - now).min(20).max(1);
            let _ = s.set_read_timeout(Some(Duration::from_millis(to)));
            match s.read(&mut buf) {
                Ok(0) => {
                    self.eof = true;
                }
                Ok(n) => {
                    self.total += n;
                    out(&format!(
                        "{} t_ms={} {}",
                        self.tag,
                        ms(self.start),
                        hex(&buf[..n])
                    ));
                }
                Err(e) => match e.kind() {
                    std::io::ErrorKind::WouldBlock
                    | std::io::ErrorKind::TimedOut
                    | std::io::ErrorKind::Interrupted => {}
                    k => {
                        self.err = Some(format!("{:?}", k));
                        self.eof = true;
                    }
                },
            }
        }
        // EOF already seen: nothing more can arrive, just let time pass
    }
}

fn sleep_until(start: Instant, t_ms: u64) {
    let now = ms(start);
    if t_ms > now {
        thread::sleep(Duration::from_millis(t_ms - now));
    }
}

fn client(cfg: &Cfg, port: u16, start: Instant) {
    let mut s = match TcpStream::connect(("127.0.0.1", port)) {
        Ok(s) => s,
        Err(e) => {
            out(&format!("CLIENT_CONNECT_ERR {:?}", e.kind()));
            out(&format!(
                "CLIENT_END eof=0 total=0 t_ms={} err=connect",
                ms(start)
            ));
            return;
        }
    };
    let _ = s.set_nodelay(true);
    let mut p = Pump {
        start,
        total: 0,
        eof: false,
        err: None,
        tag: "CLIENT_CHUNK",
    };

    // cut the bytes into the requested write() calls
    let mut pieces: Vec<&[u8]> = Vec::new();
    let mut pos = 0usize;
    for &n in &cfg.segs {
        let end = (pos + n).min(cfg.bytes.len());
        pieces.push(&cfg.bytes[pos..end]);
        pos = end;
    }
    if pos < cfg.bytes.len() || pieces.is_empty() {
        pieces.push(&cfg.bytes[pos..]);
    }

    let mut sent = 0usize;
    let mut write_err: Option<String> = None;
    let npieces = pieces.len();
    for (k, piece) in pieces.into_iter().enumerate() {
        if write_err.is_none() && !piece.is_empty() {
            match s.write_all(piece).and_then(|_| s.flush()) {
                Ok(()) => sent += piece.len(),
                Err(e) => {
                    write_err = Some(format!("{:?}", e.kind()));
                    out(&format!(
                        "CLIENT_WRITE_ERR kind={:?} sent={} t_ms={}",
                        e.kind(),
                        sent,
                        ms(start)
                    ));
                }
            }
        }
        if k + 1 < npieces {
            // 5 ms pause between segments, keep draining the socket meanwhile
            let t = ms(start) + 5;
            p.pump(&mut s, t);
            sleep_until(start, t);
        }
    }
    if cfg.half_close {
        let _ = s.shutdown(Shutdown::Write);
    }
    let t_sent = ms(start);
    out(&format!("CLIENT_SENT n={} t_ms={}", sent, t_sent));

    let mut deadline = cfg.wait_ms;
    let mut closing = false;
    if let Some(n) = cfg.close_after_send_ms {
        if t_sent + n < deadline {
            deadline = t_sent + n;
            closing = true;
        }
    }
    p.pump(&mut s, deadline);
    let eof_str = |p: &Pump| {
        format!(
            "eof={} total={} t_ms={} err={}",
            if p.eof { 1 } else { 0 },
            p.total,
            ms(start),
            p.err.clone().unwrap_or_else(|| "none".to_string())
        )
    };
    if closing && !p.eof {
        // really close the socket (only owner: close(2) happens here)
        let _ = s.shutdown(Shutdown::Both);
        drop(s);
        out(&format!("CLIENT_CLOSED t_ms={}", ms(start)));
        out(&format!("CLIENT_END {}", eof_str(&p)));
        return;
    }
    out(&format!("CLIENT_END {}", eof_str(&p)));
    if p.eof {
        return;
    }
    // late window: observe what the final drop of pending requests produces
    p.tag = "CLIENT_LATE_CHUNK";
    p.pump(&mut s, cfg.wait_ms + LATE_MS);
    out(&format!("CLIENT_LATE_END {}", eof_str(&p)));
}

// ---------------------------------------------------------------- handler

fn describe(i: usize, rq: &Request, t: u64) {
    let v = rq.http_version();
    out(&format!(
        "REQ {} method={} url={} version={}.{} nheaders={} body_length={} remote={} t_ms={}",
        i,
        hex(rq.method().as_str().as_bytes()),
        hex(rq.url().as_bytes()),
        v.0,
        v.1,
        rq.headers().len(),
        match rq.body_length() {
            Some(n) => n.to_string(),
            None => "none".to_string(),
        },
        if rq.remote_addr().is_some() { "some" } else { "none" },
        t
    ));
    for (j, h) in rq.headers().iter().enumerate() {
        out(&format!(
            "HDR {} {} name={} value={}",
            i,
            j,
            hex(h.field.as_str().as_str().as_bytes()),
            hex(h.value.as_str().as_bytes())
        ));
    }
}

fn do_respond(i: usize, rq: Request, cfg: &Cfg, start: Instant) {
    out(&format!("RESPOND_START {} t_ms={}", i, ms(start)));
    let resp = Response::from_data(cfg.body.clone()).with_status_code(cfg.status);
    let r = panic::catch_unwind(AssertUnwindSafe(move || rq.respond(resp)));
    let s = match r {
        Ok(Ok(())) => "ok".to_string(),
        Ok(Err(e)) => format!("err:{:?}", e.kind()),
        Err(_) => "panic".to_string(),
    };
    out(&format!("RESPOND {} result={} t_ms={}", i, s, ms(start)));
}

/// respond() on a helper thread: with pipelined requests tiny_http makes the
/// respond of a later request wait until the earlier ones are answered, which
/// must not block the handler loop.
fn do_respond_bg(i: usize, rq: Request, cfg: &Cfg, start: Instant) {
    let cfg = cfg.clone();
    RESPONDERS.fetch_add(1, Ordering::SeqCst);
    let r = thread::Builder::new()
        .name(format!("responder-{}", i))
        .spawn(move || {
            do_respond(i, rq, &cfg, start);
            RESPONDERS.fetch_sub(1, Ordering::SeqCst);
        });
    if r.is_err() {
        RESPONDERS.fetch_sub(1, Ordering::SeqCst);
        out(&format!("RESPOND {} result=err:spawn t_ms={}", i, ms(start)));
    }
}

fn do_drop(i: usize, rq: Request, start: Instant) {
    let r = panic::catch_unwind(AssertUnwindSafe(move || drop(rq)));
    out(&format!(
        "DROP {} result={} t_ms={}",
        i,
        if r.is_ok() { "ok" } else { "panic" },
        ms(start)
    ));
}

fn do_read_body(i: usize, rq: &mut Request, cfg: &Cfg) {
    let mut data: Vec<u8> = Vec::new();
    let mut reads: Vec<usize> = Vec::new();
    let sizes = cfg.read_sizes.clone();
    let r = panic::catch_unwind(AssertUnwindSafe(|| -> std::io::Result<()> {
        let rd = rq.as_reader();
        if sizes.is_empty() {
            let mut tmp = Vec::new();
            let res = rd.read_to_end(&mut tmp);
            data.extend_from_slice(&tmp);
            return res.map(|_| ());
        }
        let mut k = 0usize;
        loop {
            let size = sizes[k.min(sizes.len() - 1)];
            k += 1;
            let mut buf = vec![0u8; size];
            match rd.read(&mut buf) {
                Ok(0) => {
                    reads.push(0);
                    return Ok(());
                }
                Ok(n) => {
                    reads.push(n);
                    data.extend_from_slice(&buf[..n.min(size)]);
                }
                Err(e) => {
                    if e.kind() == std::io::ErrorKind::Interrupted {
                        continue;
                    }
                    return Err(e);
                }
            }
        }
    }));
    let s = match r {
        Ok(Ok(())) => "ok".to_string(),
        Ok(Err(e)) => format!("err:{:?}", e.kind()),
        Err(_) => "panic".to_string(),
    };
    let rs: Vec<String> = reads.iter().map(|n| n.to_string()).collect();
    out(&format!(
        "BODY {} {} result={} reads={}",
        i,
        hex(&data),
        s,
        rs.join(",")
    ));
}

fn main() {
    let start = Instant::now();

    panic::set_hook(Box::new(|info| {
        let msg = if let Some(s) = info.payload().downcast_ref::<&str>() {
            (*s).to_string()
        } else if let Some(s) = info.payload().downcast_ref::<String>() {
            s.clone()
        } else {
            "<non-string payload>".to_string()
        };
        let loc = match info.location() {
            Some(l) => format!("{}:{}", l.file(), l.line()),
            None => "?".to_string(),
        };
        let th = thread::current().name().unwrap_or("unnamed").to_string();
        let line = {
            let mut v = PANICS.lock().unwrap_or_else(|e| e.into_inner());
            let line = format!(
                "[{}] thread={} at={} msg={}",
                v.len(),
                one_line(&th),
                one_line(&loc),
                one_line(&msg)
            );
            v.push(line.clone());
            line
        };
        out(&format!("PANIC {}", line));
    }));

    let path = match std::env::args().nth(1) {
        Some(p) => p,
        None => {
            out("CFG_ERR missing scenario file argument");
            finish(2);
        }
    };
    let text = match std::fs::read_to_string(&path) {
        Ok(t) => t,
        Err(e) => {
            out(&format!("CFG_ERR cannot read scenario: {:?}", e.kind()));
            finish(2);
        }
    };
    let cfg = parse_cfg(&text);

    let server = match Server::http("127.0.0.1:0") {
        Ok(s) => Arc::new(s),
        Err(e) => {
            out(&format!("SERVER_ERR {}", one_line(&e.to_string())));
            finish(2);
        }
    };
    let port = match server.server_addr().to_ip() {
        Some(a) => a.port(),
        None => {
            out("SERVER_ERR no ip address");
            finish(2);
        }
    };
    out(&format!("PORT {}", port));

    // watchdog: whatever happens (handler stuck in a blocking body read or
    // in respond), terminate a while after wait_ms
    {
        let limit = cfg.wait_ms + LATE_MS + 2000;
        thread::Builder::new()
            .name("watchdog".into())
            .spawn(move || {
                sleep_until(start, limit);
                out(&format!("WATCHDOG t_ms={}", ms(start)));
                finish(0);
            })
            .ok();
    }

    // client thread
    let (done_tx, done_rx) = mpsc::channel::<()>();
    {
        let cfg = cfg.clone();
        thread::Builder::new()
            .name("client".into())
            .spawn(move || {
                let r = panic::catch_unwind(AssertUnwindSafe(|| client(&cfg, port, start)));
                if r.is_err() {
                    out(&format!("CLIENT_END eof=0 total=0 t_ms={} err=panic", ms(start)));
                }
                let _ = done_tx.send(());
            })
            .ok();
    }

    // ticker used to get out of the blocking recv()
    let in_recv = Arc::new(AtomicBool::new(false));
    if cfg.recv == RecvMode::Recv {
        let server = server.clone();
        let in_recv = in_recv.clone();
        thread::Builder::new()
            .name("ticker".into())
            .spawn(move || loop {
                thread::sleep(Duration::from_millis(20));
                if in_recv.load(Ordering::SeqCst) {
                    server.unblock();
                }
            })
            .ok();
    }

    // handler loop (main thread)
    let mut slots: Vec<Option<Request>> = Vec::new();
    let mut recv_t: Vec<u64> = Vec::new();
    loop {
        let now = ms(start);
        if now >= cfg.wait_ms {
            break;
        }
        let mut to = (cfg.wait_ms - now).min(50);
        if cfg.mode == Mode::HoldFirst && !slots.is_empty() && slots[0].is_some() {
            let release = (recv_t[0] + cfg.hold_ms).min(cfg.wait_ms.saturating_sub(300));
            if now >= release {
                let rq = slots[0].take().unwrap();
                do_respond(0, rq, &cfg, start);
                continue;
            }
            to = to.min(release - now);
        }
        let to = to.max(1);

        let got: Option<Request> = match cfg.recv {
            RecvMode::RecvTimeout => match server.recv_timeout(Duration::from_millis(to)) {
                Ok(x) => x,
                Err(e) => {
                    out(&format!(
                        "RECV_ERR kind={:?} msg={} t_ms={}",
                        e.kind(),
                        one_line(&e.to_string()),
                        ms(start)
                    ));
                    thread::sleep(Duration::from_millis(2));
                    None
                }
            },
            RecvMode::TryRecv => match server.try_recv() {
                Ok(Some(x)) => Some(x),
                Ok(None) => {
                    thread::sleep(Duration::from_millis(2));
                    None
                }
                Err(e) => {
                    out(&format!(
                        "RECV_ERR kind={:?} msg={} t_ms={}",
                        e.kind(),
                        one_line(&e.to_string()),
                        ms(start)
                    ));
                    thread::sleep(Duration::from_millis(2));
                    None
                }
            },
            RecvMode::Recv => {
                in_recv.store(true, Ordering::SeqCst);
                let r = server.recv();
                in_recv.store(false, Ordering::SeqCst);
                match r {
                    Ok(x) => Some(x),
                    Err(e) => {
                        if e.to_string() != "thread unblocked" {
                            out(&format!(
                                "RECV_ERR kind={:?} msg={} t_ms={}",
                                e.kind(),
                                one_line(&e.to_string()),
                                ms(start)
                            ));
                            thread::sleep(Duration::from_millis(2));
                        }
                        None
                    }
                }
            }
        };

        let mut rq = match got {
            Some(rq) => rq,
            None => continue,
        };
        let i = slots.len();
        let t = ms(start);
        describe(i, &rq, t);
        recv_t.push(t);
        match cfg.mode {
            Mode::RespondAll => {
                slots.push(None);
                do_respond(i, rq, &cfg, start);
            }
            Mode::HoldFirst => {
                if i == 0 {
                    slots.push(Some(rq));
                } else {
                    slots.push(None);
                    do_respond_bg(i, rq, &cfg, start);
                }
            }
            Mode::DropAll => {
                slots.push(None);
                do_drop(i, rq, start);
            }
            Mode::NeverAnswer => {
                slots.push(Some(rq));
            }
            Mode::ReadThenRespond => {
                slots.push(None);
                do_read_body(i, &mut rq, &cfg);
                do_respond(i, rq, &cfg, start);
            }
        }
    }
    out(&format!("HANDLER_END t_ms={}", ms(start)));

    // drop whatever is still pending (auto-500 shows up as CLIENT_LATE_CHUNK)
    if slots.iter().any(|s| s.is_some()) {
        sleep_until(start, cfg.wait_ms + DROP_DELAY_MS);
    }
    for i in 0..slots.len() {
        if let Some(rq) = slots[i].take() {
            do_drop(i, rq, start);
        }
    }

    let _ = done_rx.recv_timeout(Duration::from_millis(LATE_MS + 1500));
    // give helper responders (hold_first) a moment to report
    let t_end = ms(start) + 300;
    while RESPONDERS.load(Ordering::SeqCst) > 0 && ms(start) < t_end {
        thread::sleep(Duration::from_millis(5));
    }
    if RESPONDERS.load(Ordering::SeqCst) > 0 {
        out(&format!(
            "RESPONDERS_STUCK n={} t_ms={}",
            RESPONDERS.load(Ordering::SeqCst),
            ms(start)
        ));
    }
    finish(0);
}
