//! rtdrv: replays a thread schedule against the REAL source of three concurrency
//! kernels of tiny-http (copied unchanged, apart from their `use` lines, into
//! `src/kernels/` at build time by /verif/mirsym/replay_rt.py) on top of the
//! controlled runtime `verif_rt`.
//!
//! usage: rtdrv <scenario-file>
//!
//! Scenario file: one `key=value` per line
//!   model=queue|pool|writers
//!   thread=<name> <program words...>         (repeated)
//!   sched=<thread> <op> [k=v ...]            (repeated, in order; absent => free run)
//!   mode=gated|trace       optional (default: gated iff there is a sched line)
//!   n=<k>                  writers: number of SequentialWriters created
//!   builder=keep|drop      writers: what happens to the builder after set-up (keep)
//!   tasks=park|return      pool: what a task does after its `task_run` mark (park)
//!   skip=<op,op,..>        additional op kinds that are not gated / skipped in sched
//!   stall_ms=<ms>          no-progress limit (2000)
//!   quiesce_ms=<ms>        free run: all threads blocked for that long => end (300)
//!   max_wait_ms=<ms>       free run: real-time cap of a timed condvar wait (200)
//!
//! Programs (word groups are separated by `;` where noted)
//!   queue:   `push <id>..` | `pop` | `try_pop` | `pop_timeout <ns>` | `unblock` |
//!            `sleep <ms>`, groups separated by `;`.  After each receive call:
//!            mark("result") + `RESULT <thread> <call-index> <some:<id>|none>`
//!   pool:    `new` | `spawn <id>` | `drop` | `sleep <ms>`  (one shared pool)
//!            each task: mark("task_run") + `TASK_RUN <id> <thread>`, then parks for
//!            ever (tasks=park) or returns (tasks=return)
//!   writers: thread h<i> drives writer i: `write` | `flush` | `drop` | `sleep <ms>`
//!            (`w=<i>` as first word overrides the index); without `drop` the writer
//!            is leaked (never destroyed).  Sink: mark("sink_write"/"sink_flush") +
//!            `SINK <thread> write|flush`; `DROPPED <thread>` just before the drop.
#![allow(dead_code, unused_imports)]

mod verif_rt;

mod kernels {
    pub mod messages_queue;
    pub mod sequential;
    pub mod task_pool;
}

use std::collections::HashMap;
use std::io::Write;
use std::sync::{Arc, Mutex as StdMutex};

use kernels::messages_queue::MessagesQueue;
use kernels::sequential::{SequentialWriter, SequentialWriterBuilder};
use kernels::task_pool::TaskPool;
use verif_rt::{Entry, Mode};

struct Scenario {
    keys: HashMap<String, String>,
    threads: Vec<(String, Vec<String>)>,
    sched: Vec<Entry>,
    has_sched: bool,
}

fn parse_scenario(text: &str) -> Scenario {
    let mut sc = Scenario { keys: HashMap::new(), threads: Vec::new(), sched: Vec::new(), has_sched: false };
    for line in text.lines() {
        let line = line.trim();
        if line.is_empty() || line.starts_with('#') {
            continue;
        }
        let (k, v) = match line.find('=') {
            Some(i) => (&line[..i], &line[i + 1..]),
            None => continue,
        };
        match k {
            "thread" => {
                let mut w = v.split_whitespace().map(|s| s.to_string());
                if let Some(name) = w.next() {
                    sc.threads.push((name, w.collect()));
                }
            }
            "sched" => {
                sc.has_sched = true;
                let mut w = v.split_whitespace();
                let thread = w.next().unwrap_or("?").to_string();
                let op = w.next().unwrap_or("?").to_string();
                let kv = w
                    .filter_map(|t| t.find('=').map(|i| (t[..i].to_string(), t[i + 1..].to_string())))
                    .collect();
                sc.sched.push(Entry { thread, op, kv });
            }
            _ => {
                sc.keys.insert(k.to_string(), v.to_string());
            }
        }
    }
    sc
}

fn num(sc: &Scenario, k: &str, dflt: u64) -> u64 {
    sc.keys.get(k).and_then(|v| v.parse().ok()).unwrap_or(dflt)
}

fn groups(words: &[String]) -> Vec<Vec<String>> {
    words
        .split(|w| w == ";")
        .filter(|g| !g.is_empty())
        .map(|g| g.to_vec())
        .collect()
}

fn sleep_ms(arg: Option<&String>) {
    let ms = arg.and_then(|x| x.parse::<u64>().ok()).unwrap_or(10);
    std::thread::sleep(std::time::Duration::from_millis(ms));
}

fn bad(name: &str, what: &str) {
    verif_rt::out(&format!("BAD_PROGRAM thread={} {}", name, what));
}

// ------------------------------------------------------------------ queue

fn queue_program(name: String, words: Vec<String>, q: Arc<MessagesQueue<u64>>) {
    let mut idx = 0usize;
    for g in groups(&words) {
        let r: Option<Option<u64>> = match g[0].as_str() {
            "push" => {
                for id in &g[1..] {
                    match id.parse::<u64>() {
                        Ok(v) => q.push(v),
                        Err(_) => bad(&name, &format!("push_arg={}", id)),
                    }
                }
                None
            }
            "unblock" => {
                q.unblock();
                None
            }
            "pop" => Some(q.pop()),
            "try_pop" => Some(q.try_pop()),
            "pop_timeout" => {
                let ns = g.get(1).and_then(|x| x.parse::<u64>().ok()).unwrap_or(0);
                Some(q.pop_timeout(verif_rt::time::Duration::from_nanos(ns)))
            }
            "sleep" => {
                sleep_ms(g.get(1));
                None
            }
            other => {
                bad(&name, &format!("word={}", other));
                None
            }
        };
        if let Some(v) = r {
            let val = match v {
                Some(id) => format!("some:{}", id),
                None => "none".to_string(),
            };
            verif_rt::mark_print("result", &format!("RESULT {} {} {}", name, idx, val));
            idx += 1;
        }
    }
}

// ------------------------------------------------------------------ pool

static POOL: StdMutex<Option<Arc<TaskPool>>> = StdMutex::new(None);

fn the_pool(name: &str) -> Option<Arc<TaskPool>> {
    for _ in 0..2000 {
        if let Some(p) = POOL.lock().unwrap().as_ref() {
            return Some(p.clone());
        }
        std::thread::sleep(std::time::Duration::from_millis(1));
    }
    bad(name, "no_pool");
    None
}

fn pool_program(name: String, words: Vec<String>, tasks_return: bool) {
    let mut i = 0;
    while i < words.len() {
        match words[i].as_str() {
            ";" => {}
            "new" => {
                let p = TaskPool::new();
                *POOL.lock().unwrap() = Some(Arc::new(p));
            }
            "spawn" => {
                i += 1;
                let id: u64 = words.get(i).and_then(|x| x.parse().ok()).unwrap_or(0);
                if let Some(p) = the_pool(&name) {
                    p.spawn(Box::new(move || {
                        verif_rt::mark_print(
                            "task_run",
                            &format!("TASK_RUN {} {}", id, verif_rt::my_name()),
                        );
                        if !tasks_return {
                            verif_rt::park_forever();
                        }
                    }));
                }
            }
            "drop" => {
                let p = POOL.lock().unwrap().take();
                if let Some(p) = p {
                    verif_rt::out(&format!("DROPPED {}", name));
                    match Arc::try_unwrap(p) {
                        Ok(pool) => drop(pool),
                        Err(_) => bad(&name, "pool_still_shared"),
                    }
                }
            }
            "sleep" => {
                i += 1;
                sleep_ms(words.get(i));
            }
            other => bad(&name, &format!("word={}", other)),
        }
        i += 1;
    }
    // without `drop` the pool lives for ever (it stays in POOL)
}

// ------------------------------------------------------------------ writers

struct Sink;

impl Write for Sink {
    fn write(&mut self, buf: &[u8]) -> std::io::Result<usize> {
        verif_rt::mark_print("sink_write", &format!("SINK {} write", verif_rt::my_name()));
        Ok(buf.len())
    }

    fn flush(&mut self) -> std::io::Result<()> {
        verif_rt::mark_print("sink_flush", &format!("SINK {} flush", verif_rt::my_name()));
        Ok(())
    }
}

fn writer_program(name: String, words: Vec<String>, mut w: SequentialWriter<Sink>) {
    let mut dropped = false;
    let mut it = words.iter();
    let mut slot = Some(());
    while let Some(word) = it.next() {
        if slot.is_none() {
            bad(&name, &format!("word_after_drop={}", word));
            break;
        }
        match word.as_str() {
            ";" => {}
            "write" => {
                if let Err(e) = w.write(b"x") {
                    verif_rt::out(&format!("IOERR {} write {:?}", name, e.kind()));
                }
            }
            "flush" => {
                if let Err(e) = w.flush() {
                    verif_rt::out(&format!("IOERR {} flush {:?}", name, e.kind()));
                }
            }
            "sleep" => sleep_ms(it.next()),
            "drop" => {
                dropped = true;
                slot = None;
            }
            x if x.starts_with("w=") => {}
            other => bad(&name, &format!("word={}", other)),
        }
    }
    if dropped {
        verif_rt::out(&format!("DROPPED {}", name));
        drop(w);
    } else {
        std::mem::forget(w);
    }
}

fn writer_index(name: &str, words: &[String]) -> Option<usize> {
    if let Some(w) = words.first() {
        if let Some(x) = w.strip_prefix("w=") {
            return x.parse().ok();
        }
    }
    let digits: String = name.chars().rev().take_while(|c| c.is_ascii_digit()).collect();
    let digits: String = digits.chars().rev().collect();
    digits.parse().ok()
}

// ------------------------------------------------------------------ main

fn main() {
    let path = match std::env::args().nth(1) {
        Some(p) => p,
        None => {
            eprintln!("usage: rtdrv <scenario-file>");
            std::process::exit(2);
        }
    };
    let text = match std::fs::read_to_string(&path) {
        Ok(t) => t,
        Err(e) => {
            eprintln!("cannot read {}: {}", path, e);
            std::process::exit(2);
        }
    };
    let sc = parse_scenario(&text);
    let mode = match sc.keys.get("mode").map(|s| s.as_str()) {
        Some("gated") => Mode::Gated,
        Some("trace") | Some("freerun") => Mode::FreeRun,
        _ => {
            if sc.has_sched {
                Mode::Gated
            } else {
                Mode::FreeRun
            }
        }
    };
    let extra_skip: Vec<String> = sc
        .keys
        .get("skip")
        .map(|s| s.split(',').map(|x| x.trim().to_string()).filter(|x| !x.is_empty()).collect())
        .unwrap_or_default();
    verif_rt::init(mode, sc.sched.clone(), extra_skip, num(&sc, "max_wait_ms", 200));
    let model = sc.keys.get("model").cloned().unwrap_or_default();
    verif_rt::out(&format!(
        "START model={} mode={} threads={} sched={}",
        model,
        if mode == Mode::Gated { "gated" } else { "freerun" },
        sc.threads.len(),
        sc.sched.len()
    ));

    match model.as_str() {
        "queue" => {
            let q: Arc<MessagesQueue<u64>> = MessagesQueue::with_capacity(8);
            for (name, words) in sc.threads.clone() {
                let q = q.clone();
                let n = name.clone();
                verif_rt::spawn_named(&name, move || queue_program(n, words, q));
            }
        }
        "pool" => {
            let tasks_return = sc.keys.get("tasks").map(|s| s == "return").unwrap_or(false);
            for (name, words) in sc.threads.clone() {
                let n = name.clone();
                verif_rt::spawn_named(&name, move || pool_program(n, words, tasks_return));
            }
        }
        "writers" => {
            let n = num(&sc, "n", sc.threads.len() as u64) as usize;
            verif_rt::set_recording(false);
            let mut builder = SequentialWriterBuilder::new(Sink);
            let mut writers: Vec<Option<SequentialWriter<Sink>>> = Vec::new();
            for _ in 0..n {
                writers.push(builder.next());
            }
            if sc.keys.get("builder").map(|s| s == "drop").unwrap_or(false) {
                drop(builder);
            } else {
                std::mem::forget(builder);
            }
            verif_rt::set_recording(true);
            for (name, words) in sc.threads.clone() {
                let idx = writer_index(&name, &words);
                let w = idx.and_then(|i| writers.get_mut(i)).and_then(|s| s.take());
                match w {
                    Some(w) => {
                        let nm = name.clone();
                        verif_rt::spawn_named(&name, move || writer_program(nm, words, w));
                    }
                    None => bad(&name, "no_such_writer_or_already_taken"),
                }
            }
            // writers that no thread drives are never destroyed
            for w in writers.into_iter().flatten() {
                std::mem::forget(w);
            }
        }
        other => {
            verif_rt::out(&format!("BAD_SCENARIO model={}", other));
            verif_rt::out("DONE");
            std::process::exit(2);
        }
    }
    verif_rt::watchdog(num(&sc, "stall_ms", 2000), num(&sc, "quiesce_ms", 300));
}
