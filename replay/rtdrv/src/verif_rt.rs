//! verif_rt: a controlled replacement for the std primitives used by the three
//! concurrency kernels of tiny-http (`util/messages_queue.rs`, `util/task_pool.rs`,
//! `util/sequential.rs`).
//!
//! Every VISIBLE operation (lock, unlock, wait, wake, notify, atomics, clock reads,
//! spawn, channel operations, driver marks) passes one global gate.  Two modes:
//!
//!  * GATED: a schedule (list of `(thread, op, k=v..)` entries) is enforced: an
//!    operation of thread T of kind K blocks until the head of the remaining schedule
//!    is an entry for T; a different op kind at the head is a divergence (exit 3).
//!  * FREE-RUN (tracing): no schedule; the primitives really synchronise (mutexes
//!    exclude, condvars park until notified / real-time deadline, channels block) and
//!    every operation is printed as `OP <thread> <op> k=v..` in the order it happened.
//!
//! All the state (schedule, mutex owners, condvar waiters, channel meta data, thread
//! registry) lives behind ONE std mutex + ONE std condvar; an operation is performed
//! and printed while that mutex is held, so the `OP` lines are totally ordered.

use std::cell::{RefCell, UnsafeCell};
use std::collections::{HashMap, VecDeque};
use std::sync::{
    Arc as StdArc, Condvar as StdCondvar, Mutex as StdMutex, MutexGuard as StdGuard, OnceLock,
};
use std::time::{Duration as StdDuration, Instant as StdInstant};

/// Schedule entries of these kinds describe things the runtime cannot see (plain data
/// structure accesses, model-side observations): they are popped without waiting
/// whenever they are at the head of the schedule.
pub const SKIPPED_KINDS: &[&str] = &[
    "q_push",
    "q_push_front",
    "q_pop",
    "q_pop_back",
    "q_peek",
    "q_is_empty",
    "q_len",
    "q_clear",
    "observe",
];

/// Kinds performed by the driver programs through `mark(kind)` (gated like the others).
pub const MARK_KINDS: &[&str] = &["task_run", "sink_write", "sink_flush", "result"];

#[derive(Clone, Debug)]
pub struct Entry {
    pub thread: String,
    pub op: String,
    pub kv: Vec<(String, String)>,
}

impl Entry {
    pub fn get(&self, k: &str) -> Option<&str> {
        self.kv.iter().find(|(a, _)| a == k).map(|(_, v)| v.as_str())
    }
}

#[derive(Clone, Copy, PartialEq, Eq, Debug)]
pub enum Mode {
    FreeRun,
    Gated,
}

struct Parked {
    cv: usize,
    mutex: usize,
    timed: bool,
    notified: bool,
    deadline: Option<StdInstant>,
}

struct ThreadRec {
    name: String,
    done: bool,
    panicked: bool,
    /// operation the thread is currently trying to perform (it is inside the gate)
    pending: Option<(String, Option<usize>)>,
    /// set between the `wait`/`wait_timeout` op and the `wake` op
    parked: Option<Parked>,
}

struct ChanMeta {
    len: usize,
    senders: usize,
    receiver: bool,
}

struct Sched {
    mode: Mode,
    recording: bool,
    entries: Vec<Entry>,
    pos: usize,
    skipped: usize,
    extra_skip: Vec<String>,
    threads: Vec<ThreadRec>,
    mutex_owner: HashMap<usize, String>,
    cv_waiters: HashMap<usize, Vec<String>>,
    chans: HashMap<usize, ChanMeta>,
    next_id: usize,
    spawn_count: usize,
    clock: u64,
    /// free-run only: real-time cap of a timed wait
    wait_cap: StdDuration,
    ops_done: usize,
    last_progress: StdInstant,
    t0: StdInstant,
}

impl Sched {
    fn new() -> Sched {
        Sched {
            mode: Mode::FreeRun,
            recording: true,
            entries: Vec::new(),
            pos: 0,
            skipped: 0,
            extra_skip: Vec::new(),
            threads: Vec::new(),
            mutex_owner: HashMap::new(),
            cv_waiters: HashMap::new(),
            chans: HashMap::new(),
            next_id: 0,
            spawn_count: 0,
            clock: 0,
            wait_cap: StdDuration::from_millis(200),
            ops_done: 0,
            last_progress: StdInstant::now(),
            t0: StdInstant::now(),
        }
    }

    fn is_skipped(&self, kind: &str) -> bool {
        SKIPPED_KINDS.contains(&kind) || self.extra_skip.iter().any(|k| k == kind)
    }

    fn skip_invisible(&mut self) {
        while self.pos < self.entries.len() && self.is_skipped(&self.entries[self.pos].op) {
            self.pos += 1;
            self.skipped += 1;
        }
    }

    fn exhausted(&self) -> bool {
        self.mode == Mode::Gated && self.pos >= self.entries.len()
    }

    fn thread_mut(&mut self, name: &str) -> Option<&mut ThreadRec> {
        self.threads.iter_mut().find(|t| t.name == name)
    }

    fn thread(&self, name: &str) -> Option<&ThreadRec> {
        self.threads.iter().find(|t| t.name == name)
    }

    fn register(&mut self, name: &str) {
        if self.thread(name).is_none() {
            self.threads.push(ThreadRec {
                name: name.to_string(),
                done: false,
                panicked: false,
                pending: None,
                parked: None,
            });
        }
    }

    fn set_pending(&mut self, name: &str, p: Option<(String, Option<usize>)>) {
        // the main thread (set-up operations only) is not part of the registry
        if let Some(t) = self.thread_mut(name) {
            t.pending = p;
        }
    }

    fn state_of(&self, t: &ThreadRec) -> String {
        if t.panicked {
            return "panicked".into();
        }
        if t.done {
            return "done".into();
        }
        if let Some(p) = &t.parked {
            return format!(
                "{} op=wake notified={}",
                if p.timed { "parked_timed" } else { "parked_wait" },
                p.notified as u8
            );
        }
        match &t.pending {
            Some((k, Some(id))) if k == "lock" && self.mutex_owner.contains_key(id) => {
                format!("blocked_lock op=lock held_by={}", self.mutex_owner[id])
            }
            Some((k, Some(id)))
                if k == "recv" && self.chans.get(id).map(|c| c.len == 0).unwrap_or(false) =>
            {
                "blocked_recv op=recv".into()
            }
            Some((k, _)) => format!("at_gate op={}", k),
            None => "running".into(),
        }
    }
}

static SCHED: OnceLock<(StdMutex<Sched>, StdCondvar)> = OnceLock::new();

fn sched() -> &'static (StdMutex<Sched>, StdCondvar) {
    SCHED.get_or_init(|| (StdMutex::new(Sched::new()), StdCondvar::new()))
}

fn lock_sched() -> StdGuard<'static, Sched> {
    sched().0.lock().unwrap_or_else(|e| e.into_inner())
}

fn wait_sched(g: StdGuard<'static, Sched>) -> StdGuard<'static, Sched> {
    sched().1.wait(g).unwrap_or_else(|e| e.into_inner())
}

fn wait_sched_for(g: StdGuard<'static, Sched>, d: StdDuration) -> StdGuard<'static, Sched> {
    match sched().1.wait_timeout(g, d) {
        Ok((g, _)) => g,
        Err(e) => e.into_inner().0,
    }
}

thread_local! {
    static NAME: RefCell<String> = RefCell::new(String::from("main"));
}

pub fn my_name() -> String {
    NAME.with(|n| n.borrow().clone())
}

fn set_my_name(name: &str) {
    NAME.with(|n| *n.borrow_mut() = name.to_string());
}

/// All output goes through here (one line per call, stdout is line buffered).
pub fn out(line: &str) {
    println!("{}", line);
}

// ------------------------------------------------------------------ set-up / control

pub fn init(mode: Mode, entries: Vec<Entry>, extra_skip: Vec<String>, wait_cap_ms: u64) {
    let mut g = lock_sched();
    g.mode = mode;
    g.wait_cap = StdDuration::from_millis(wait_cap_ms);
    g.entries = entries;
    g.pos = 0;
    g.extra_skip = extra_skip;
    g.last_progress = StdInstant::now();
    g.t0 = StdInstant::now();
    drop(g);
    std::panic::set_hook(Box::new(|info| {
        let msg = if let Some(s) = info.payload().downcast_ref::<&str>() {
            (*s).to_string()
        } else if let Some(s) = info.payload().downcast_ref::<String>() {
            s.clone()
        } else {
            "?".to_string()
        };
        let at = info
            .location()
            .map(|l| format!("{}:{}", l.file(), l.line()))
            .unwrap_or_else(|| "?".into());
        out(&format!(
            "PANIC thread={} at={} msg={}",
            my_name(),
            at,
            msg.replace('\n', " ")
        ));
    }));
}

/// `set_recording(false)`: operations bypass the gate (set-up done by the main thread
/// before the schedule starts); they are still printed, with `setup=1`.
pub fn set_recording(on: bool) {
    let mut g = lock_sched();
    g.recording = on;
    g.last_progress = StdInstant::now();
}

pub fn note(what: &str) {
    out(&format!("NOTE thread={} {}", my_name(), what));
}

fn report(g: &Sched, reason: &str) {
    out(&format!(
        "END reason={} consumed={}/{} skipped={} ops={} mode={}",
        reason,
        g.pos,
        g.entries.len(),
        g.skipped,
        g.ops_done,
        if g.mode == Mode::Gated { "gated" } else { "freerun" }
    ));
    if g.pos < g.entries.len() {
        let e = &g.entries[g.pos];
        out(&format!("HEAD step={} thread={} op={}", g.pos, e.thread, e.op));
    }
    for t in &g.threads {
        out(&format!("THREAD {} state={}", t.name, g.state_of(t)));
    }
    out("DONE");
}

/// Runs on the main thread after the program threads were started: waits for the end
/// of the run (schedule exhausted, or no progress), prints the final report, exits.
pub fn watchdog(stall_ms: u64, quiesce_ms: u64) -> ! {
    loop {
        let g = lock_sched();
        let mut g = wait_sched_for(g, StdDuration::from_millis(10));
        if g.mode == Mode::Gated {
            g.skip_invisible();
        }
        let now = StdInstant::now();
        let idle = now.duration_since(g.last_progress);
        let any_running = g.threads.iter().any(|t| !t.done && t.pending.is_none());
        let all_done = g.threads.iter().all(|t| t.done);
        let timed_pending = g.threads.iter().any(|t| {
            !t.done
                && t.parked
                    .as_ref()
                    .and_then(|p| p.deadline)
                    .map(|d| d + StdDuration::from_millis(50) > now)
                    .unwrap_or(false)
        });
        if g.exhausted() || (g.mode == Mode::FreeRun && all_done && !g.threads.is_empty()) {
            // let the threads reach their final state (done / next gate)
            if !any_running || idle > StdDuration::from_millis(300) {
                report(&g, "exhausted");
                std::process::exit(0);
            }
            continue;
        }
        let mut stalled = idle > StdDuration::from_millis(stall_ms);
        if !stalled && !any_running && !timed_pending {
            if g.mode == Mode::Gated {
                // definite stall: every live thread sits at the gate and the owner of the
                // head entry is finished or does not exist
                let h = g.entries[g.pos].thread.clone();
                let owner_gone = g.thread(&h).map(|t| t.done).unwrap_or(true);
                if owner_gone && idle > StdDuration::from_millis(20) {
                    stalled = true;
                }
            } else if idle > StdDuration::from_millis(quiesce_ms) {
                stalled = true;
            }
        }
        if stalled {
            report(&g, "stalled");
            std::process::exit(0);
        }
    }
}

// ------------------------------------------------------------------ the gate

struct Turn {
    g: StdGuard<'static, Sched>,
    entry: Option<Entry>,
    step: Option<usize>,
    kind: String,
    me: String,
}

type Enabled<'a> = &'a dyn Fn(&Sched, &str, bool) -> Result<(), String>;

fn always(_: &Sched, _: &str, _: bool) -> Result<(), String> {
    Ok(())
}

fn diverge_with(g: &Sched, me: &str, kind: &str, why: Option<&str>) -> ! {
    let (step, exp) = if g.pos < g.entries.len() {
        (g.pos, g.entries[g.pos].op.clone())
    } else {
        (g.pos, "<end>".to_string())
    };
    out(&format!(
        "DIVERGED step={} thread={} expected={} got={}{}",
        step,
        me,
        exp,
        kind,
        why.map(|w| format!(" why={}", w)).unwrap_or_default()
    ));
    report(g, "diverged");
    std::process::exit(3);
}

/// Blocks until the calling thread may perform an operation of kind `kind`, and returns
/// with the scheduler lock held.  The caller performs the operation on `turn.g` and
/// calls `turn.finish(..)`.
fn acquire(kind: &str, obj: Option<usize>, deadline: Option<StdInstant>, enabled: Enabled) -> Turn {
    let me = my_name();
    let mut g = lock_sched();
    g.set_pending(&me, Some((kind.to_string(), obj)));
    let entry;
    let step;
    loop {
        let gated = g.mode == Mode::Gated && g.recording && !g.is_skipped(kind);
        if gated {
            g.skip_invisible();
            if g.pos >= g.entries.len() {
                // the run is over: block forever (the watchdog ends the process)
                sched().1.notify_all();
                g = wait_sched(g);
                continue;
            }
            if g.entries[g.pos].thread == me {
                if g.entries[g.pos].op != kind {
                    diverge_with(&g, &me, kind, None);
                }
                if let Err(why) = enabled(&g, &me, true) {
                    diverge_with(&g, &me, kind, Some(&why));
                }
                entry = Some(g.entries[g.pos].clone());
                step = Some(g.pos);
                break;
            }
            g = wait_sched(g);
        } else {
            if enabled(&g, &me, false).is_ok() {
                entry = None;
                step = None;
                break;
            }
            g = match deadline {
                Some(d) => {
                    let now = StdInstant::now();
                    let left = if d > now { d - now } else { StdDuration::from_millis(0) };
                    wait_sched_for(g, left + StdDuration::from_micros(200))
                }
                None => wait_sched(g),
            };
        }
    }
    g.set_pending(&me, None);
    Turn { g, entry, step, kind: kind.to_string(), me }
}

impl Turn {
    fn finish(mut self, detail: &str) {
        let tail = match self.step {
            Some(i) => format!(" step={}", i),
            None => {
                if !self.g.recording {
                    " setup=1".to_string()
                } else {
                    String::new()
                }
            }
        };
        out(&format!(
            "OP {} {}{}{}{}",
            self.me,
            self.kind,
            if detail.is_empty() { "" } else { " " },
            detail,
            tail
        ));
        if self.step.is_some() {
            self.g.pos += 1;
            self.g.skip_invisible();
        }
        self.g.ops_done += 1;
        self.g.last_progress = StdInstant::now();
        sched().1.notify_all();
    }

    fn diverge(self, why: &str) -> ! {
        diverge_with(&self.g, &self.me, &self.kind, Some(why))
    }

    fn note(&self, what: &str) {
        out(&format!(
            "NOTE thread={} step={} {}",
            self.me,
            self.step.map(|s| s.to_string()).unwrap_or_else(|| "-".into()),
            what
        ));
    }
}

fn new_id() -> usize {
    let mut g = lock_sched();
    g.next_id += 1;
    g.next_id
}

/// A visible operation of the driver program (`task_run`, `sink_write`, `sink_flush`,
/// `result`, ...).
pub fn mark(kind: &str) {
    let t = acquire(kind, None, None, &always);
    t.finish("");
}

/// Same as `mark`, and prints `line` atomically with the operation.
pub fn mark_print(kind: &str, line: &str) {
    let t = acquire(kind, None, None, &always);
    out(line);
    t.finish("");
}

/// Parks the calling thread for ever (an operation of kind `never`, which no schedule
/// contains: if the schedule expects anything else from this thread, that is a divergence).
pub fn park_forever() -> ! {
    let never = |_: &Sched, _: &str, _: bool| -> Result<(), String> { Err("thread_parked_for_ever".into()) };
    let _t = acquire("never", None, None, &never);
    unreachable!("the `never` operation was granted");
}

fn thread_main<F, T>(name: String, f: F) -> T
where
    F: FnOnce() -> T,
{
    set_my_name(&name);
    let r = std::panic::catch_unwind(std::panic::AssertUnwindSafe(f));
    let mut g = lock_sched();
    if let Some(t) = g.thread_mut(&name) {
        t.done = true;
        t.pending = None;
        t.panicked = r.is_err();
    }
    g.last_progress = StdInstant::now();
    sched().1.notify_all();
    drop(g);
    match r {
        Ok(v) => v,
        Err(p) => std::panic::resume_unwind(p),
    }
}

/// Starts a driver program thread (NOT a visible operation).
pub fn spawn_named<F>(name: &str, f: F)
where
    F: FnOnce() + Send + 'static,
{
    {
        let mut g = lock_sched();
        g.register(name);
    }
    let n = name.to_string();
    std::thread::Builder::new()
        .name(n.clone())
        .spawn(move || thread_main(n, f))
        .expect("cannot start an OS thread");
}

// ------------------------------------------------------------------ sync

pub mod sync {
    use super::*;
    pub use std::sync::{Arc, LockResult, PoisonError, Weak};

    pub struct Mutex<T> {
        id: usize,
        data: UnsafeCell<T>,
    }

    unsafe impl<T: Send> Send for Mutex<T> {}
    unsafe impl<T: Send> Sync for Mutex<T> {}

    pub struct MutexGuard<'a, T> {
        m: &'a Mutex<T>,
    }

    impl<T> Mutex<T> {
        pub fn new(t: T) -> Mutex<T> {
            Mutex { id: new_id(), data: UnsafeCell::new(t) }
        }

        pub fn lock(&self) -> LockResult<MutexGuard<'_, T>> {
            let id = self.id;
            let free = move |s: &Sched, _: &str, _: bool| match s.mutex_owner.get(&id) {
                None => Ok(()),
                Some(o) => Err(format!("mutex_held_by:{}", o)),
            };
            let mut t = acquire("lock", Some(id), None, &free);
            let me = t.me.clone();
            t.g.mutex_owner.insert(id, me);
            t.finish(&format!("obj=m{}", id));
            Ok(MutexGuard { m: self })
        }

        pub fn into_inner(self) -> LockResult<T> {
            Ok(self.data.into_inner())
        }

        pub fn get_mut(&mut self) -> LockResult<&mut T> {
            Ok(self.data.get_mut())
        }
    }

    impl<'a, T> std::ops::Deref for MutexGuard<'a, T> {
        type Target = T;
        fn deref(&self) -> &T {
            unsafe { &*self.m.data.get() }
        }
    }

    impl<'a, T> std::ops::DerefMut for MutexGuard<'a, T> {
        fn deref_mut(&mut self) -> &mut T {
            unsafe { &mut *self.m.data.get() }
        }
    }

    impl<'a, T> Drop for MutexGuard<'a, T> {
        fn drop(&mut self) {
            let id = self.m.id;
            let mut t = acquire("unlock", Some(id), None, &always);
            t.g.mutex_owner.remove(&id);
            t.finish(&format!("obj=m{}", id));
        }
    }

    #[derive(Clone, Copy, Debug, PartialEq, Eq)]
    pub struct WaitTimeoutResult(bool);

    impl WaitTimeoutResult {
        pub fn timed_out(&self) -> bool {
            self.0
        }
    }

    pub struct Condvar {
        id: usize,
    }

    impl Default for Condvar {
        fn default() -> Condvar {
            Condvar::new()
        }
    }

    impl Condvar {
        pub fn new() -> Condvar {
            Condvar { id: new_id() }
        }

        /// `wait` / `wait_timeout` op: releases the mutex and parks; then the `wake` op:
        /// re-acquires the mutex.  Returns the timed_out flag.
        fn park_and_wake(&self, mid: usize, dur: Option<StdDuration>) -> bool {
            let cv = self.id;
            let kind = if dur.is_some() { "wait_timeout" } else { "wait" };
            let mut t = acquire(kind, Some(cv), None, &always);
            let me = t.me.clone();
            if t.g.mutex_owner.get(&mid) != Some(&me) {
                t.note("what=wait_without_holding_the_mutex");
            }
            t.g.mutex_owner.remove(&mid);
            // a real deadline exists in free-run mode only (capped: the trace shows the
            // requested duration, the wait really lasts min(dur, wait_cap))
            let deadline = match (&t.entry, dur) {
                (None, Some(d)) => Some(StdInstant::now() + std::cmp::min(d, t.g.wait_cap)),
                _ => None,
            };
            if let Some(r) = t.g.thread_mut(&me) {
                r.parked = Some(Parked { cv, mutex: mid, timed: dur.is_some(), notified: false, deadline });
            }
            t.g.cv_waiters.entry(cv).or_default().push(me.clone());
            let mut detail = format!("obj=cv{} mutex=m{}", cv, mid);
            if let Some(d) = dur {
                detail.push_str(&format!(" dur={}", d.as_nanos()));
                if let Some(e) = &t.entry {
                    if let Some(x) = e.get("dur").and_then(|x| x.parse::<u128>().ok()) {
                        if x != d.as_nanos() {
                            t.note(&format!("what=dur_mismatch schedule={} real={}", x, d.as_nanos()));
                        }
                    }
                }
            }
            t.finish(&detail);

            // ---- wake
            let can_wake = move |s: &Sched, me: &str, gated: bool| -> Result<(), String> {
                if let Some(o) = s.mutex_owner.get(&mid) {
                    return Err(format!("mutex_held_by:{}", o));
                }
                if gated {
                    return Ok(());
                }
                let p = s.thread(me).and_then(|r| r.parked.as_ref());
                match p {
                    Some(p) if p.notified => Ok(()),
                    Some(p) => match p.deadline {
                        Some(d) if StdInstant::now() >= d => Ok(()),
                        _ => Err("not_notified".into()),
                    },
                    None => Ok(()),
                }
            };
            let mut t = acquire("wake", Some(cv), deadline, &can_wake);
            let (notified, timed) = t
                .g
                .thread(&me)
                .and_then(|r| r.parked.as_ref())
                .map(|p| (p.notified, p.timed))
                .unwrap_or((false, false));
            let timed_out = match &t.entry {
                Some(e) => e.get("timed_out").map(|v| v == "1" || v == "true").unwrap_or(false),
                None => !notified,
            };
            if t.entry.is_some() {
                if timed_out && !timed {
                    t.diverge("timed_out_wake_of_an_untimed_wait");
                }
                if !timed_out && !notified {
                    t.note("what=spurious_wake");
                }
            }
            if let Some(r) = t.g.thread_mut(&me) {
                r.parked = None;
            }
            if let Some(ws) = t.g.cv_waiters.get_mut(&cv) {
                ws.retain(|n| n != &me);
            }
            t.g.mutex_owner.insert(mid, me);
            t.finish(&format!(
                "obj=cv{} mutex=m{} timed_out={} notified={}",
                cv, mid, timed_out as u8, notified as u8
            ));
            timed_out
        }

        pub fn wait<'a, T>(&self, guard: MutexGuard<'a, T>) -> LockResult<MutexGuard<'a, T>> {
            let m = guard.m;
            std::mem::forget(guard);
            self.park_and_wake(m.id, None);
            Ok(MutexGuard { m })
        }

        pub fn wait_timeout<'a, T>(
            &self,
            guard: MutexGuard<'a, T>,
            dur: StdDuration,
        ) -> LockResult<(MutexGuard<'a, T>, WaitTimeoutResult)> {
            let m = guard.m;
            std::mem::forget(guard);
            let to = self.park_and_wake(m.id, Some(dur));
            Ok((MutexGuard { m }, WaitTimeoutResult(to)))
        }

        pub fn notify_one(&self) {
            let cv = self.id;
            let mut t = acquire("notify_one", Some(cv), None, &always);
            let unnotified: Vec<String> = t
                .g
                .cv_waiters
                .get(&cv)
                .map(|ws| {
                    ws.iter()
                        .filter(|n| {
                            t.g.thread(n)
                                .and_then(|r| r.parked.as_ref())
                                .map(|p| !p.notified)
                                .unwrap_or(false)
                        })
                        .cloned()
                        .collect()
                })
                .unwrap_or_default();
            let target: Option<String> = match t.entry.as_ref().and_then(|e| e.get("target")) {
                Some("none") => None,
                Some(x) => Some(x.to_string()),
                None => unnotified.first().cloned(), // free run (or no target given): FIFO
            };
            match &target {
                Some(x) => {
                    let ok = t
                        .g
                        .thread(x)
                        .and_then(|r| r.parked.as_ref())
                        .map(|p| p.cv == cv)
                        .unwrap_or(false);
                    if ok {
                        if let Some(p) = t.g.thread_mut(x).and_then(|r| r.parked.as_mut()) {
                            p.notified = true;
                        }
                    } else {
                        t.note(&format!("what=notify_target_not_parked target={}", x));
                    }
                }
                None => {
                    if t.entry.is_some() && !unnotified.is_empty() {
                        t.note(&format!(
                            "what=notify_none_with_waiters waiters={}",
                            unnotified.join(",")
                        ));
                    }
                }
            }
            t.finish(&format!(
                "obj=cv{} target={}",
                cv,
                target.unwrap_or_else(|| "none".into())
            ));
        }

        pub fn notify_all(&self) {
            let cv = self.id;
            let mut t = acquire("notify_all", Some(cv), None, &always);
            let ws: Vec<String> = t.g.cv_waiters.get(&cv).cloned().unwrap_or_default();
            for n in &ws {
                if let Some(p) = t.g.thread_mut(n).and_then(|r| r.parked.as_mut()) {
                    p.notified = true;
                }
            }
            t.finish(&format!(
                "obj=cv{} woken={}",
                cv,
                if ws.is_empty() { "none".to_string() } else { ws.join(",") }
            ));
        }
    }

    pub mod atomic {
        use super::super::*;
        pub use std::sync::atomic::Ordering;

        pub struct AtomicUsize {
            id: usize,
            v: std::sync::atomic::AtomicUsize,
        }

        const SC: Ordering = Ordering::SeqCst;

        impl AtomicUsize {
            pub fn new(v: usize) -> AtomicUsize {
                AtomicUsize { id: new_id(), v: std::sync::atomic::AtomicUsize::new(v) }
            }

            pub fn load(&self, _o: Ordering) -> usize {
                let t = acquire("a_load", Some(self.id), None, &always);
                let v = self.v.load(SC);
                t.finish(&format!("obj=a{} val={}", self.id, v));
                v
            }

            pub fn store(&self, v: usize, _o: Ordering) {
                let t = acquire("a_store", Some(self.id), None, &always);
                self.v.store(v, SC);
                t.finish(&format!("obj=a{} v={}", self.id, v));
            }

            pub fn fetch_add(&self, v: usize, _o: Ordering) -> usize {
                let t = acquire("a_fetch_add", Some(self.id), None, &always);
                let old = self.v.fetch_add(v, SC);
                t.finish(&format!("obj=a{} v={} old={}", self.id, v, old));
                old
            }

            pub fn fetch_sub(&self, v: usize, _o: Ordering) -> usize {
                let t = acquire("a_fetch_sub", Some(self.id), None, &always);
                let old = self.v.fetch_sub(v, SC);
                t.finish(&format!("obj=a{} v={} old={}", self.id, v, old));
                old
            }
        }

        pub struct AtomicBool {
            id: usize,
            v: std::sync::atomic::AtomicBool,
        }

        impl AtomicBool {
            pub fn new(v: bool) -> AtomicBool {
                AtomicBool { id: new_id(), v: std::sync::atomic::AtomicBool::new(v) }
            }

            pub fn load(&self, _o: Ordering) -> bool {
                let t = acquire("a_load", Some(self.id), None, &always);
                let v = self.v.load(SC);
                t.finish(&format!("obj=a{} val={}", self.id, v as u8));
                v
            }

            pub fn store(&self, v: bool, _o: Ordering) {
                let t = acquire("a_store", Some(self.id), None, &always);
                self.v.store(v, SC);
                t.finish(&format!("obj=a{} v={}", self.id, v as u8));
            }
        }
    }

    pub mod mpsc {
        use super::super::*;
        pub use std::sync::mpsc::{RecvError, SendError, TryRecvError};

        struct ChanData<T> {
            id: usize,
            q: StdMutex<VecDeque<T>>,
        }

        pub struct Sender<T> {
            d: StdArc<ChanData<T>>,
        }

        pub struct Receiver<T> {
            d: StdArc<ChanData<T>>,
        }

        pub fn channel<T>() -> (Sender<T>, Receiver<T>) {
            let mut t = acquire("chan_new", None, None, &always);
            t.g.next_id += 1;
            let id = t.g.next_id;
            t.g.chans.insert(id, ChanMeta { len: 0, senders: 1, receiver: true });
            t.finish(&format!("obj=ch{}", id));
            let d = StdArc::new(ChanData { id, q: StdMutex::new(VecDeque::new()) });
            (Sender { d: d.clone() }, Receiver { d })
        }

        impl<T> Sender<T> {
            pub fn send(&self, v: T) -> Result<(), SendError<T>> {
                let id = self.d.id;
                let mut t = acquire("send", Some(id), None, &always);
                let alive = t.g.chans.get(&id).map(|c| c.receiver).unwrap_or(false);
                if alive {
                    self.d.q.lock().unwrap_or_else(|e| e.into_inner()).push_back(v);
                    if let Some(c) = t.g.chans.get_mut(&id) {
                        c.len += 1;
                    }
                    t.finish(&format!("obj=ch{} ok=1", id));
                    Ok(())
                } else {
                    t.finish(&format!("obj=ch{} ok=0", id));
                    Err(SendError(v))
                }
            }
        }

        impl<T> Clone for Sender<T> {
            fn clone(&self) -> Sender<T> {
                let id = self.d.id;
                let mut t = acquire("sender_clone", Some(id), None, &always);
                if let Some(c) = t.g.chans.get_mut(&id) {
                    c.senders += 1;
                }
                t.finish(&format!("obj=ch{}", id));
                Sender { d: self.d.clone() }
            }
        }

        impl<T> Drop for Sender<T> {
            fn drop(&mut self) {
                let id = self.d.id;
                let mut t = acquire("drop_sender", Some(id), None, &always);
                let mut left = 0;
                if let Some(c) = t.g.chans.get_mut(&id) {
                    c.senders = c.senders.saturating_sub(1);
                    left = c.senders;
                }
                t.finish(&format!("obj=ch{} senders_left={}", id, left));
            }
        }

        impl<T> Receiver<T> {
            pub fn recv(&self) -> Result<T, RecvError> {
                let id = self.d.id;
                let ready = move |s: &Sched, _: &str, _: bool| match s.chans.get(&id) {
                    Some(c) if c.len > 0 || c.senders == 0 => Ok(()),
                    Some(_) => Err("recv_would_block".to_string()),
                    None => Ok(()),
                };
                let mut t = acquire("recv", Some(id), None, &ready);
                let v = self.d.q.lock().unwrap_or_else(|e| e.into_inner()).pop_front();
                if v.is_some() {
                    if let Some(c) = t.g.chans.get_mut(&id) {
                        c.len -= 1;
                    }
                }
                t.finish(&format!("obj=ch{} ok={}", id, v.is_some() as u8));
                v.ok_or(RecvError)
            }

            pub fn try_recv(&self) -> Result<T, TryRecvError> {
                let id = self.d.id;
                let mut t = acquire("try_recv", Some(id), None, &always);
                let v = self.d.q.lock().unwrap_or_else(|e| e.into_inner()).pop_front();
                let mut senders = 1;
                if let Some(c) = t.g.chans.get_mut(&id) {
                    if v.is_some() {
                        c.len -= 1;
                    }
                    senders = c.senders;
                }
                t.finish(&format!("obj=ch{} ok={}", id, v.is_some() as u8));
                match v {
                    Some(v) => Ok(v),
                    None if senders == 0 => Err(TryRecvError::Disconnected),
                    None => Err(TryRecvError::Empty),
                }
            }
        }

        impl<T> Drop for Receiver<T> {
            fn drop(&mut self) {
                let id = self.d.id;
                let mut t = acquire("drop_receiver", Some(id), None, &always);
                let pending: Vec<T> =
                    self.d.q.lock().unwrap_or_else(|e| e.into_inner()).drain(..).collect();
                if let Some(c) = t.g.chans.get_mut(&id) {
                    c.receiver = false;
                    c.len = 0;
                }
                t.finish(&format!("obj=ch{} discarded={}", id, pending.len()));
                // queued values are destroyed outside the gate (their destructors may
                // perform visible operations themselves)
                drop(pending);
            }
        }
    }
}

// ------------------------------------------------------------------ thread

pub mod thread {
    use super::*;

    pub struct JoinHandle<T>(std::thread::JoinHandle<T>);

    impl<T> JoinHandle<T> {
        pub fn join(self) -> std::thread::Result<T> {
            self.0.join()
        }
    }

    /// `spawn` op: in gated mode the schedule entry names the child (`child=<name>`);
    /// in free-run mode children are called w0, w1, ...
    pub fn spawn<F, T>(f: F) -> JoinHandle<T>
    where
        F: FnOnce() -> T + Send + 'static,
        T: Send + 'static,
    {
        let mut t = acquire("spawn", None, None, &always);
        let k = t.g.spawn_count;
        t.g.spawn_count += 1;
        let mut name = match t.entry.as_ref().and_then(|e| e.get("child")) {
            Some(c) => c.to_string(),
            None => format!("w{}", k),
        };
        if t.g.thread(&name).is_some() {
            t.note(&format!("what=duplicate_child_name child={}", name));
            name = format!("{}#{}", name, k);
        }
        t.g.register(&name);
        t.finish(&format!("child={}", name));
        let n = name.clone();
        let h = std::thread::Builder::new()
            .name(name)
            .spawn(move || thread_main(n, f))
            .expect("cannot start an OS thread");
        JoinHandle(h)
    }

    /// Not a visible operation (the kernels do not sleep); real sleep.
    pub fn sleep(d: StdDuration) {
        std::thread::sleep(d)
    }
}

// ------------------------------------------------------------------ time

pub mod time {
    use super::*;
    pub use std::time::Duration;

    /// Virtual clock value (nanoseconds).  Gated mode: the value comes from the `now`
    /// schedule entry (`t=<ns>`); free-run mode: real time since the start of the run.
    #[derive(Clone, Copy, Debug, PartialEq, Eq, PartialOrd, Ord, Hash)]
    pub struct Instant {
        t: u64,
    }

    fn read_clock() -> u64 {
        let mut t = acquire("now", None, None, &always);
        let v = match &t.entry {
            Some(e) => match e.get("t").and_then(|x| x.parse::<u64>().ok()) {
                Some(v) => v,
                None => {
                    t.note("what=now_entry_without_t");
                    t.g.clock
                }
            },
            None => t.g.t0.elapsed().as_nanos() as u64,
        };
        t.g.clock = v;
        t.finish(&format!("t={}", v));
        v
    }

    impl Instant {
        pub fn now() -> Instant {
            Instant { t: read_clock() }
        }

        pub fn elapsed(&self) -> Duration {
            let t = read_clock();
            Duration::from_nanos(t.saturating_sub(self.t))
        }

        pub fn duration_since(&self, earlier: Instant) -> Duration {
            Duration::from_nanos(self.t.saturating_sub(earlier.t))
        }

        pub fn saturating_duration_since(&self, earlier: Instant) -> Duration {
            self.duration_since(earlier)
        }

        pub fn checked_duration_since(&self, earlier: Instant) -> Option<Duration> {
            self.t.checked_sub(earlier.t).map(Duration::from_nanos)
        }

        pub fn checked_add(&self, d: Duration) -> Option<Instant> {
            self.t.checked_add(d.as_nanos() as u64).map(|t| Instant { t })
        }
    }

    impl std::ops::Add<Duration> for Instant {
        type Output = Instant;
        fn add(self, d: Duration) -> Instant {
            Instant { t: self.t + d.as_nanos() as u64 }
        }
    }

    impl std::ops::Sub<Duration> for Instant {
        type Output = Instant;
        fn sub(self, d: Duration) -> Instant {
            Instant { t: self.t - d.as_nanos() as u64 }
        }
    }

    impl std::ops::Sub<Instant> for Instant {
        type Output = Duration;
        fn sub(self, o: Instant) -> Duration {
            self.duration_since(o)
        }
    }
}
