import json
props=[json.loads(l) for l in open('/verif/properties.jsonl')]
claimed={}
try:
    claimed=json.load(open('/verif/claims.json'))
except Exception: pass
checks=[]; na=[]
for p in props:
    i=p['id']
    if i in claimed:
        c=claimed[i]
        checks.append({"property_id":i,"quick_cmd":"./check %s --tier quick"%i,"thorough_cmd":"./check %s --tier thorough"%i,
          "evidence_file":"/verif/evidence/%s.json"%i,"replay_cmd_template":"./check %s --replay {path}"%i,"engine":"mirsym",
          "level_claimed":{"category":"model_checking","text":c['text'],"design_ref":c.get('ref','DESIGN.md §5 '+i)},
          "level_note":c['note'],"technique":c['technique']})
    else:
        na.append({"property_id":i,"reason":"check not built yet in this session (solver-based engine under construction); not claimed"})
m={"version":1,"setup_cmd":"./setup.sh","hooks":{"guard":"none","enable":"not applicable: no source hooks; checks dump MIR from a scratch copy of /repo's working tree and apply overlays there","baseline_off_cmd":"cd /repo && cargo test --workspace --no-fail-fast --offline","source_commits":[],"add_only":True},
 "engines":[{"name":"mirsym","path":"/verif/mirsym","serves_properties":sorted(claimed),"kind_free_text":"symbolic execution / bounded model checking of rustc MIR of the current tree with z3; environment (std, sockets) as models"}],
 "checks":checks,"not_applicable":na,
 "notes":"Every check regenerates the MIR of /repo's working tree (cargo +nightly rustc -Zunpretty=mir) in a scratch directory under /var/tmp and decides its obligations with z3; results are bounded (bounds in each evidence file)."}
json.dump(m,open('/verif/MANIFEST.json','w'),indent=1)
print(len(checks),'claimed',len(na),'n/a')
