"""Symbolic values for the MIR interpreter."""
import z3

BV8 = z3.BitVecSort(8)
BV64 = z3.BitVecSort(64)
ARR = z3.ArraySort(BV64, BV8)

INT_WIDTH = {'u8': 8, 'u16': 16, 'u32': 32, 'u64': 64, 'u128': 128, 'usize': 64,
             'i8': 8, 'i16': 16, 'i32': 32, 'i64': 64, 'i128': 128, 'isize': 64, 'char': 32}
SIGNED = {'i8', 'i16', 'i32', 'i64', 'i128', 'isize'}


def bv(v, w=64):
    return z3.BitVecVal(v, w)


def simp(e):
    return z3.simplify(e)


def conc(e):
    """Concrete python value of a z3 scalar, or None."""
    if isinstance(e, (int, bool)):
        return e
    if z3.is_bv_value(e):
        return e.as_long()
    if z3.is_true(e):
        return True
    if z3.is_false(e):
        return False
    s = z3.simplify(e)
    if z3.is_bv_value(s):
        return s.as_long()
    if z3.is_true(s):
        return True
    if z3.is_false(s):
        return False
    return None


class Cell:
    __slots__ = ('v', 'name')

    def __init__(self, v=None, name=None):
        self.v = v
        self.name = name

    def __repr__(self):
        return 'Cell(%s=%r)' % (self.name, self.v)


class Struct:
    """struct / tuple / closure environment. fields is a python list."""
    __slots__ = ('ty', 'fields')

    def __init__(self, ty, fields):
        self.ty = ty
        self.fields = list(fields)

    def __repr__(self):
        return '%s{%s}' % (self.ty, ', '.join(repr(f) for f in self.fields))


class Enum:
    __slots__ = ('ty', 'variant', 'idx', 'fields')

    def __init__(self, ty, variant, idx, fields=()):
        self.ty = ty
        self.variant = variant
        self.idx = idx
        self.fields = list(fields)

    def __repr__(self):
        return '%s::%s(%s)' % (self.ty, self.variant, ', '.join(repr(f) for f in self.fields))


UNIT = Struct('()', [])


def unit():
    return Struct('()', [])


def is_unit(v):
    return isinstance(v, Struct) and v.ty == '()' and not v.fields


def Some(v):
    return Enum('Option', 'Some', 1, [v])


def NONE():
    return Enum('Option', 'None', 0, [])


def Ok(v):
    return Enum('Result', 'Ok', 0, [v])


def Err(v):
    return Enum('Result', 'Err', 1, [v])


class Ref:
    """reference / raw pointer / Box-less pointer: root container + projection path."""
    __slots__ = ('root', 'path', 'mut')

    def __init__(self, root, path=(), mut=False):
        self.root = root
        self.path = tuple(path)
        self.mut = mut

    def __repr__(self):
        return 'Ref(%r%s)' % (self.root, ''.join('.' + str(p) for p in self.path))


class FnItem:
    __slots__ = ('name',)

    def __init__(self, name):
        self.name = name

    def __repr__(self):
        return 'FnItem(%s)' % self.name


class Buf:
    """A heap byte buffer (backing store of String / Vec<u8> / AsciiString / arrays of u8 / str constants).
    arr: z3 array BV64->BV8; length: z3 BV64 (may be symbolic); maxlen: python int used for bounded expansions."""
    __slots__ = ('arr', 'len', 'maxlen', 'kind', 'tag')

    def __init__(self, arr, length, maxlen, kind='Vec', tag=None):
        self.arr = arr
        self.len = length if not isinstance(length, int) else bv(length)
        self.maxlen = maxlen
        self.kind = kind      # 'Vec' | 'String' | 'AsciiString' | 'const' | 'array'
        self.tag = tag

    @staticmethod
    def from_bytes(b, kind='const'):
        arr = z3.K(BV64, bv(0, 8))
        for i, c in enumerate(b):
            arr = z3.Store(arr, bv(i), bv(c, 8))
        return Buf(arr, len(b), len(b), kind)

    def __repr__(self):
        c = conc(self.len)
        if c is not None and c <= 64:
            bs = []
            for i in range(c):
                x = conc(z3.simplify(z3.Select(self.arr, bv(i))))
                bs.append(x)
            if all(x is not None for x in bs):
                return '%s(%r)' % (self.kind, bytes(bs))
        return '%s(len=%s)' % (self.kind, self.len)


class Slice:
    """&str / &[u8] / &mut [u8]: a window into a Buf."""
    __slots__ = ('buf', 'off', 'len', 'is_str')

    def __init__(self, buf, off, length, is_str=False):
        self.buf = buf
        self.off = off if not isinstance(off, int) else bv(off)
        self.len = length if not isinstance(length, int) else bv(length)
        self.is_str = is_str

    def at(self, i):
        if isinstance(i, int):
            i = bv(i)
        return z3.Select(self.buf.arr, self.off + i)

    @property
    def maxlen(self):
        # bound used for expansions over positions: the concrete length when there is one
        c = conc(self.len)
        if c is not None:
            return c
        return self.buf.maxlen

    def concrete(self):
        n = conc(self.len)
        o = conc(self.off)
        if n is None or o is None:
            return None
        out = []
        for i in range(n):
            c = conc(z3.simplify(z3.Select(self.buf.arr, bv(o + i))))
            if c is None:
                return None
            out.append(c)
        return bytes(out)

    def __repr__(self):
        c = self.concrete() if conc(self.len) is not None and conc(self.len) <= 80 else None
        if c is not None:
            return 'Slice(%r)' % c
        return 'Slice(off=%s,len=%s)' % (self.off, self.len)


def whole(buf, is_str=False):
    return Slice(buf, bv(0), buf.len, is_str)


class VecObj:
    """Vec<T> / VecDeque<T> for non-byte element types with concrete length."""
    __slots__ = ('items', 'elem')

    def __init__(self, items=None, elem=None):
        self.items = list(items or [])
        self.elem = elem

    def __repr__(self):
        return 'Vec%r' % (self.items,)


class ListSlice:
    """&[T] over a VecObj (or python list holder): window [start, end)."""
    __slots__ = ('vec', 'start', 'end')

    def __init__(self, vec, start=0, end=None):
        self.vec = vec
        self.start = start
        self.end = len(vec.items) if end is None else end

    def __repr__(self):
        return 'ListSlice(%r[%d:%d])' % (self.vec, self.start, self.end)


class BoxObj:
    __slots__ = ('cell',)

    def __init__(self, v):
        self.cell = Cell(v)

    def __repr__(self):
        return 'Box(%r)' % (self.cell.v,)


class Opaque:
    """An environment object with identity (model objects: sockets, channels, ...)."""

    def __init__(self, kind, **kw):
        self.kind = kind
        self.__dict__.update(kw)

    def __repr__(self):
        return '<%s %s>' % (self.kind, ' '.join('%s=%r' % (k, v) for k, v in self.__dict__.items() if k != 'kind' and not k.startswith('_')))


class F32:
    """Abstract f32 used for TE q-values: cls in {'fin','nan','inf','ninf'}; milli = value*1000 as z3 Int/BV (fin only)."""
    __slots__ = ('cls', 'milli')

    def __init__(self, cls, milli=None):
        self.cls = cls
        self.milli = milli

    def __repr__(self):
        return 'F32(%s,%s)' % (self.cls, self.milli)
