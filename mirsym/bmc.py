"""Bounded model checking of the concurrency kernels (DESIGN.md §2.2, App. C).

Front end: every thread program is unfolded by the symbolic interpreter in trace mode into a tree of visible
operations (sync.Event) and branch conditions over the fresh result symbols of those operations.
Back end: the trees are turned into guarded commands (one command = one atomic step: a boundary operation followed
by operations on lock-protected objects), unrolled K steps with a symbolic schedule, and decided by z3.
"""
import time, itertools, os
import z3
from .values import *
from .interp import Explorer, Interp, Unsupported, RustPanic, BoundHit, Blocked, Inconclusive, PathAbort
from .models import MODELS
from . import sync
from .sync import World, ThreadEnd, Captured, TRACE, Event


class TNode:
    __slots__ = ('id', 'kind', 'ev', 'cond', 'children', 'term', 'thread', '_renum')

    def __init__(self, kind, ev=None, cond=None, term=None):
        self.kind = kind          # root | ev | br | term
        self.ev = ev
        self.cond = cond
        self.children = {}        # ev/root: {'next': node} ; br: {True: node, False: node}
        self.term = term
        self.id = None


class Tree:
    def __init__(self, name):
        self.name = name
        self.root = TNode('root')
        self.nodes = []
        self.n_paths = 0
        self.terms = {}
        self.params = {}
        self.assumptions = {}

    def insert(self, trace, term):
        cur = self.root
        for item in trace:
            if item[0] == 'ev':
                nxt = cur.children.get('next')
                if nxt is None:
                    nxt = TNode('ev', ev=item[1])
                    cur.children['next'] = nxt
                elif nxt.kind != 'ev' or nxt.ev.kind != item[1].kind or nxt.ev.obj != item[1].obj:
                    raise Unsupported('non-deterministic unfolding of thread %s: %r vs %r' % (self.name, nxt.ev, item[1]))
                cur = nxt
            else:
                cond, taken = item[1], item[2]
                nxt = cur.children.get('next')
                if nxt is None:
                    nxt = TNode('br', cond=cond)
                    cur.children['next'] = nxt
                elif nxt.kind != 'br':
                    raise Unsupported('non-deterministic unfolding (branch) of thread ' + self.name)
                c = nxt.children.get(taken)
                if c is None:
                    c = TNode('hop')
                    nxt.children[taken] = c
                cur = c
        t = cur.children.get('next')
        if t is None:
            cur.children['next'] = TNode('term', term=term)
        self.n_paths += 1
        self.terms[term.split(':')[0]] = self.terms.get(term.split(':')[0], 0) + 1

    def finalize(self):
        # number the nodes
        out = []

        def rec(n):
            n.id = len(out)
            out.append(n)
            for k in sorted(n.children, key=str):
                rec(n.children[k])
        rec(self.root)
        self.nodes = out


def unfold(session, name, program, max_events=30, tasks_return=False, elem_kinds=None, elem_makers=None, fuel=200000,
           extra_models=None, configure=None):
    """program(it, w) executes the thread's MIR in trace mode."""
    tree = Tree(name)
    models = dict(MODELS)
    models.update(TRACE)
    if extra_models:
        models.update(extra_models)
    ex = Explorer(timeout_ms=int(os.environ.get('VERIF_UNFOLD_TIMEOUT_MS', '300')), seed=session.seed, max_paths=20000)
    # unfolding does not prune: every branch over result symbols is kept and decided later inside the BMC query
    ex.nocheck = True
    encoded = set()

    def harness(ctx):
        w = World(ctx, name)
        w.tasks_return = tasks_return
        w.elem_kinds = elem_kinds or {}
        w.elem_makers = elem_makers or {}
        w.max_events = max_events
        if configure:
            configure(w)
        it = Interp(session.prog, ctx, models)
        ctx.data['interp'] = it
        term = 'end'
        try:
            program(it, w)
        except ThreadEnd as e:
            term = 'forever:' + e.why
        except RustPanic as p:
            term = 'panic:' + str(p.msg)[:100]
        except BoundHit:
            term = 'frontier'
        except Blocked as b:
            term = 'blocked:' + b.what
        encoded.update(it.encoded)
        tree.insert(w.trace, term)
        for c in w.assumptions:
            tree.assumptions[c.sexpr()] = c
        return term

    ex.explore(harness, fuel=fuel)
    tree.finalize()
    tree.encoded = encoded
    tree.smt_checks = ex.n_checks
    return tree


_orig_emit = World.emit


def _bounded_emit(self, kind, obj=None, args=(), res=None, extra=None):
    e = _orig_emit(self, kind, obj, args, res, extra)
    if self.recording and sum(1 for x in self.trace if x[0] == 'ev') > getattr(self, 'max_events', 1 << 30):
        raise BoundHit('event bound')
    return e


World.emit = _bounded_emit

# ------------------------------------------------------------------------------------------------ encoder

MERGEABLE_ALWAYS_UNUSED = {'unlock', 'wait', 'wait_timeout', 'notify_one', 'notify_all', 'q_push', 'q_pop', 'q_is_empty', 'q_len'}


class Thread:
    def __init__(self, name, tree, active=True, kind=None, param=None):
        self.name = name
        # a thread program may be given as a list of segments (trees) executed one after the other; segments share no
        # thread-local state, so each is unfolded on its own (keeps the unfolding linear in the number of calls)
        self.trees = tree if isinstance(tree, list) else [tree]
        self.tree = _ChainView(self.trees)
        self.active = active          # initially active? (False: activated by a spawn event)
        self.kind = kind              # spawn kind this slot accepts
        self.param = param            # z3 const bound at spawn time
        self.locs = {}
        self.cmds = []


class _ChainView:
    def __init__(self, trees):
        self.trees = trees

    @property
    def nodes(self):
        out = []
        for t in self.trees:
            out += t.nodes
        return out

    @property
    def root(self):
        return self.trees[0].root


class Command:
    __slots__ = ('thread', 'src', 'dst', 'steps', 'idx', 'first')

    def __init__(self, thread, src, dst, steps):
        self.thread = thread
        self.src = src
        self.dst = dst
        self.steps = steps        # list of ('ev', Event) | ('br', cond, taken) | ('wake', Event)
        self.first = None


class Encoder:
    def __init__(self, threads, objects, K, cap=6, spurious=True, init_events=(), hooks=None, symmetry=(), chan_cap=3,
                 time_bits=64, free_queues=()):
        self.threads = threads
        self.objects = objects        # id -> descriptor
        self.K = K
        self.cap = cap
        self.chan_cap = chan_cap
        self.spurious = spurious
        self.hooks = hooks
        self.symmetry = symmetry
        self.init_events = init_events
        self.free_queues = set(free_queues)      # queues whose initial contents are arbitrary (single-call contracts)
        self.use_clock = True                    # False: no operation depends on time; the clock stays put
        self.initial_override = None             # dict state-var -> value: start from a state computed by a prefix run
        self.fixed_schedule = None               # list of thread names: the first steps follow this schedule exactly
        self.cons = []
        self.S = []
        self.aux = []
        self.notify_sels = {}
        self.tindex = {t.name: i for i, t in enumerate(threads)}
        self._lockset()
        self._commands()

    # ---------------------------------------------------------------- static analysis
    def _lockset(self):
        held = {}
        for t in self.threads:
            for n in t.tree.nodes:
                if n.kind == 'ev' and n.ev.obj is not None and n.ev.kind not in ('lock', 'unlock', 'wait', 'wait_timeout', 'now', 'result'):
                    h = set(n.ev.held)
                    o = n.ev.obj
                    held[o] = h if o not in held else (held[o] & h)
        self.protected = {o: sorted(h)[0] for o, h in held.items() if h}

    def is_boundary(self, ev):
        k = ev.kind
        if k in ('unlock', 'wait', 'wait_timeout', 'result', 'observe'):
            return False
        if k == 'now':
            return False
        if k in ('lock', 'recv', 'try_recv', 'spawn', 'task_run', 'send', 'chan_new', 'drop_sender', 'drop_receiver',
                 'sender_clone', 'self_deadlock'):
            return True
        return ev.obj not in self.protected

    def _commands(self):
        self.cmds = []
        for t in self.threads:
            locs = {}

            def loc(key):
                if key not in locs:
                    locs[key] = len(locs)
                return locs[key]
            t.locs = locs
            base = 0
            for tr in t.trees:
                for nd in tr.nodes:
                    nd.id = base + nd.id if not getattr(nd, '_renum', False) else nd.id
                    nd._renum = True
                base += len(tr.nodes)
            seg_of = {}
            for si, tr in enumerate(t.trees):
                for nd in tr.nodes:
                    seg_of[nd.id] = si
            loc(('at', t.trees[0].root.id))
            work = [('at', t.trees[0].root)]
            seen = set()
            t.cmds = []
            t.term_locs = {}
            t.park_locs = {}
            t.lock_locs = {}
            t.recv_locs = {}
            while work:
                kind, node = work.pop()
                key = (kind, node.id)
                if key in seen:
                    continue
                seen.add(key)
                src = loc(key)
                for steps, end in self._walk(kind, node):
                    ekind, enode = end
                    if ekind == 'term' and enode.term == 'end' and seg_of[enode.id] + 1 < len(t.trees):
                        # normal end of a segment: continue at the root of the next one
                        ekind, enode = 'at', t.trees[seg_of[enode.id] + 1].root
                    dkey = (ekind, enode.id)
                    dst = loc(dkey)
                    c = Command(t, src, dst, steps)
                    t.cmds.append(c)
                    if ekind == 'term':
                        t.term_locs[dst] = enode.term
                    else:
                        work.append((ekind, enode))
                    if ekind == 'parked':
                        t.park_locs[dst] = enode.ev
                # classify the source location by its first (blocking) operation
                if kind == 'at':
                    fb = self._first_blocking(node)
                    if fb is not None:
                        if fb.ev.kind == 'lock':
                            t.lock_locs[src] = fb.ev.obj
                        elif fb.ev.kind == 'recv':
                            t.recv_locs[src] = fb.ev.obj
            for c in t.cmds:
                c.idx = len(self.cmds)
                self.cmds.append(c)

    def _first_blocking(self, node):
        """the first scheduling-relevant event of the command that starts at node (thread-local events such as observations
        before it belong to the same command)"""
        n = node
        for _ in range(64):
            if n is None:
                return None
            if n.kind in ('root', 'hop'):
                n = n.children.get('next')
                continue
            if n.kind != 'ev':
                return None
            if n.ev.kind != 'observe':
                return n
            n = n.children.get('next')
        return None

    def _walk(self, kind, node):
        """enumerate (steps, end) from a location"""
        out = []

        def rec(n, steps, first):
            if n.kind in ('root', 'hop'):
                rec(n.children['next'], steps, first)
                return
            if n.kind == 'term':
                out.append((steps, ('term', n)))
                return
            if n.kind == 'br':
                for taken, c in n.children.items():
                    rec(c, steps + [('br', n.cond, taken)], first)
                return
            ev = n.ev
            if not first and self.is_boundary(ev):
                out.append((steps, ('at', n)))
                return
            st = steps + [('ev', ev)]
            if ev.kind in ('wait', 'wait_timeout'):
                out.append((st, ('parked', n)))
                return
            # thread-local events (observations) in front of the command's scheduling point do not use it up
            rec(n.children['next'], st, first and ev.kind == 'observe')
        if kind == 'parked':
            rec(node.children['next'], [('wake', node.ev)], False)
        else:
            rec(node, [], True)
        return out

    # ---------------------------------------------------------------- state
    def state_vars(self, k):
        S = {}

        def v(name, sort):
            S[name] = z3.Const('%s@%d' % (name, k), sort)
        B = z3.BoolSort()
        for oid, d in self.objects.items():
            kd = d['kind']
            if kd == 'mutex':
                v('mx:' + oid, B)
            elif kd == 'queue':
                v('q:%s:len' % oid, z3.BitVecSort(8))
                for i in range(self.cap):
                    v('q:%s:k%d' % (oid, i), z3.BitVecSort(8))
                    v('q:%s:p%d' % (oid, i), BV64)
            elif kd == 'atomic':
                v('at:' + oid, BV64)
            elif kd == 'chan':
                v('ch:%s:len' % oid, z3.BitVecSort(8))
                v('ch:%s:senders' % oid, z3.BitVecSort(8))
                v('ch:%s:recv' % oid, B)
                v('ch:%s:live' % oid, B)
                for i in range(self.chan_cap):
                    v('ch:%s:p%d' % (oid, i), BV64)
        v('now', BV64)
        v('overflow', B)
        for t in self.threads:
            n = t.name
            v('pc:' + n, z3.BitVecSort(16))
            v('active:' + n, B)
            v('parked:' + n, B)
            v('notified:' + n, B)
            v('timed:' + n, B)
            v('deadline:' + n, BV64)
        if self.hooks:
            self.hooks.state_vars(self, k, v)
        return S

    def initial(self, S):
        if self.initial_override is not None:
            return [S[n] == v for n, v in self.initial_override.items() if n in S]
        c = []
        for oid, d in self.objects.items():
            kd = d['kind']
            if kd == 'mutex':
                c.append(z3.Not(S['mx:' + oid]))
            elif kd == 'queue':
                if oid in self.free_queues:
                    c.append(z3.ULE(S['q:%s:len' % oid], self.cap - 1))
                else:
                    c.append(S['q:%s:len' % oid] == 0)
            elif kd == 'atomic':
                c.append(S['at:' + oid] == d.get('init', bv(0)))
            elif kd == 'chan':
                live = d.get('init_live', False)
                c.append(S['ch:%s:len' % oid] == d.get('init_len', 0))
                c.append(S['ch:%s:senders' % oid] == (d.get('init_senders', 1) if live else 0))
                c.append(S['ch:%s:recv' % oid] == z3.BoolVal(bool(live and d.get('init_recv', True))))
                c.append(S['ch:%s:live' % oid] == z3.BoolVal(bool(live)))
        c.append(z3.Not(S['overflow']))
        for t in self.threads:
            n = t.name
            c.append(S['pc:' + n] == 0)
            c.append(S['active:' + n] == z3.BoolVal(bool(t.active)))
            c.append(z3.Not(S['parked:' + n]))
            c.append(z3.Not(S['notified:' + n]))
            c.append(z3.Not(S['timed:' + n]))
        if self.hooks:
            c += self.hooks.initial(self, S)
        return c

    # ---------------------------------------------------------------- event semantics
    def apply(self, cmd, S, k):
        """symbolically execute the command's steps on state dict S (copied). returns (guards, binds, S')"""
        S = dict(S)
        t = cmd.thread
        n = t.name
        g = []
        b = []
        aux = self.aux[k]
        cap = self.cap
        for st in cmd.steps:
            if st[0] == 'br':
                g.append(st[1] if st[2] else z3.Not(st[1]))
                continue
            ev = st[1]
            kind = ev.kind
            if st[0] == 'wake':
                m = ev.extra
                spur = aux.setdefault('spur:' + n, z3.Bool('spur:%s@%d' % (n, k))) if self.spurious else z3.BoolVal(False)
                passed = z3.And(S['timed:' + n], z3.UGE(S['now'], S['deadline:' + n]))
                g.append(z3.Or(S['notified:' + n], spur, passed))
                g.append(z3.Not(S['mx:' + m]))
                if 'timed_out' in ev.res:
                    to = ev.res['timed_out']
                    b.append(z3.Implies(to, z3.And(passed, z3.Not(S['notified:' + n]))))
                    b.append(z3.Implies(z3.Not(to), z3.Or(S['notified:' + n], spur)))
                S['mx:' + m] = z3.BoolVal(True)
                S['parked:' + n] = z3.BoolVal(False)
                S['notified:' + n] = z3.BoolVal(False)
                S['timed:' + n] = z3.BoolVal(False)
                if self.hooks and hasattr(self.hooks, 'on_wake'):
                    self.hooks.on_wake(self, ev, S, t, k)
                continue
            o = ev.obj
            if kind == 'lock':
                g.append(z3.Not(S['mx:' + o]))
                S['mx:' + o] = z3.BoolVal(True)
            elif kind == 'unlock':
                S['mx:' + o] = z3.BoolVal(False)
            elif kind == 'self_deadlock':
                g.append(z3.BoolVal(False))
            elif kind == 'q_push':
                ln = S['q:%s:len' % o]
                S['overflow'] = z3.Or(S['overflow'], ln == cap)
                for i in range(cap):
                    S['q:%s:k%d' % (o, i)] = z3.If(ln == i, ev.args[0], S['q:%s:k%d' % (o, i)])
                    S['q:%s:p%d' % (o, i)] = z3.If(ln == i, ev.args[1], S['q:%s:p%d' % (o, i)])
                S['q:%s:len' % o] = z3.If(ln == cap, ln, ln + 1)
            elif kind == 'q_pop':
                ln = S['q:%s:len' % o]
                ne = z3.UGT(ln, 0)
                b.append(ev.res['nonempty'] == ne)
                b.append(z3.Implies(ne, z3.And(ev.res['kind'] == S['q:%s:k0' % o], ev.res['payload'] == S['q:%s:p0' % o])))
                for i in range(cap - 1):
                    S['q:%s:k%d' % (o, i)] = z3.If(ne, S['q:%s:k%d' % (o, i + 1)], S['q:%s:k%d' % (o, i)])
                    S['q:%s:p%d' % (o, i)] = z3.If(ne, S['q:%s:p%d' % (o, i + 1)], S['q:%s:p%d' % (o, i)])
                S['q:%s:len' % o] = z3.If(ne, ln - 1, ln)
            elif kind == 'q_peek':
                ln = S['q:%s:len' % o]
                ne = z3.UGT(ln, 0)
                b.append(ev.res['nonempty'] == ne)
                if ev.extra == 'front':
                    kk, pp = S['q:%s:k0' % o], S['q:%s:p0' % o]
                else:
                    kk, pp = S['q:%s:k0' % o], S['q:%s:p0' % o]
                    for i in range(1, cap):
                        kk = z3.If(ln == i + 1, S['q:%s:k%d' % (o, i)], kk)
                        pp = z3.If(ln == i + 1, S['q:%s:p%d' % (o, i)], pp)
                b.append(z3.Implies(ne, z3.And(ev.res['kind'] == kk, ev.res['payload'] == pp)))
            elif kind == 'q_push_front':
                ln = S['q:%s:len' % o]
                S['overflow'] = z3.Or(S['overflow'], ln == cap)
                for i in range(cap - 1, 0, -1):
                    S['q:%s:k%d' % (o, i)] = S['q:%s:k%d' % (o, i - 1)]
                    S['q:%s:p%d' % (o, i)] = S['q:%s:p%d' % (o, i - 1)]
                S['q:%s:k0' % o] = ev.args[0]
                S['q:%s:p0' % o] = ev.args[1]
                S['q:%s:len' % o] = z3.If(ln == cap, ln, ln + 1)
            elif kind == 'q_pop_back':
                ln = S['q:%s:len' % o]
                ne = z3.UGT(ln, 0)
                kk, pp = S['q:%s:k0' % o], S['q:%s:p0' % o]
                for i in range(1, cap):
                    kk = z3.If(ln == i + 1, S['q:%s:k%d' % (o, i)], kk)
                    pp = z3.If(ln == i + 1, S['q:%s:p%d' % (o, i)], pp)
                b.append(ev.res['nonempty'] == ne)
                b.append(z3.Implies(ne, z3.And(ev.res['kind'] == kk, ev.res['payload'] == pp)))
                S['q:%s:len' % o] = z3.If(ne, ln - 1, ln)
            elif kind == 'q_clear':
                S['q:%s:len' % o] = z3.BitVecVal(0, 8)
            elif kind == 'q_is_empty':
                b.append(ev.res['empty'] == (S['q:%s:len' % o] == 0))
            elif kind == 'q_len':
                b.append(ev.res['len'] == z3.ZeroExt(56, S['q:%s:len' % o]))
            elif kind in ('notify_one', 'notify_all'):
                cands = [u for u in self.threads if any(e.obj == o for e in u.park_locs.values())]
                if kind == 'notify_all':
                    for u in cands:
                        on = self._parked_on(u, S, o)
                        S['notified:' + u.name] = z3.Or(S['notified:' + u.name], on)
                else:
                    elig = [(u, z3.And(self._parked_on(u, S, o), z3.Not(S['notified:' + u.name]))) for u in cands]
                    sels = []
                    for u, e in elig:
                        sv = z3.Bool('sel:%s:%s:%d@%d' % (n, u.name, len(aux), k))
                        aux['sel%d' % len(aux)] = sv
                        sels.append((u, e, sv))
                        b.append(z3.Implies(sv, e))
                    self.notify_sels.setdefault((k, cmd.idx), []).append([(u.name, sv) for u, e, sv in sels])
                    if sels:
                        anye = z3.Or(*[e for _, e, _ in sels])
                        b.append(z3.Implies(anye, z3.Or(*[sv for _, _, sv in sels])))
                        for (u1, e1, s1), (u2, e2, s2) in itertools.combinations(sels, 2):
                            b.append(z3.Not(z3.And(s1, s2)))
                        for u, e, sv in sels:
                            S['notified:' + u.name] = z3.Or(S['notified:' + u.name], sv)
            elif kind in ('wait', 'wait_timeout'):
                m = ev.extra
                S['mx:' + m] = z3.BoolVal(False)
                S['parked:' + n] = z3.BoolVal(True)
                S['notified:' + n] = z3.BoolVal(False)
                if kind == 'wait_timeout':
                    d = ev.args[0]
                    dl = S['now'] + d
                    S['timed:' + n] = z3.BoolVal(True)
                    S['deadline:' + n] = z3.If(z3.ULT(dl, S['now']), z3.BitVecVal((1 << 64) - 1, 64), dl)
                else:
                    S['timed:' + n] = z3.BoolVal(False)
            elif kind == 'a_load':
                b.append(ev.res['val'] == S['at:' + o])
            elif kind == 'a_store':
                S['at:' + o] = ev.args[0]
            elif kind == 'a_fetch_add':
                b.append(ev.res['old'] == S['at:' + o])
                S['at:' + o] = S['at:' + o] + ev.args[0]
            elif kind == 'a_fetch_sub':
                b.append(ev.res['old'] == S['at:' + o])
                S['at:' + o] = S['at:' + o] - ev.args[0]
            elif kind == 'now':
                # time may pass before the clock is read (also in the middle of an atomic step: time commutes with
                # every other operation)
                dv = z3.BitVec('dt:%s:%d@%d' % (n, len(aux), k), 64)
                aux['dt%d' % len(aux)] = dv
                nt = S['now'] + dv
                b.append(z3.ULE(dv, bv(1 << 40)))
                S['now'] = nt
                b.append(ev.res['t'] == nt)
            elif kind == 'spawn':
                # activate the first inactive slot of the matching kind
                want = ev.extra
                slots = [u for u in self.threads if not u.active and (want is None or u.kind == want)]
                done = z3.BoolVal(False)
                for u in slots:
                    free = z3.And(z3.Not(S['active:' + u.name]), z3.Not(done))
                    if u.param is not None and ev.args:
                        b.append(z3.Implies(free, u.param == ev.args[0]))
                    S['active:' + u.name] = z3.Or(S['active:' + u.name], free)
                    done = z3.Or(done, free)
                # needing more slots than declared is a bound hit, not a pass
                S['overflow'] = z3.Or(S['overflow'], z3.Not(done))
            elif kind == 'task_run':
                pass
            elif kind == 'chan_new':
                S['ch:%s:live' % o] = z3.BoolVal(True)
                S['ch:%s:senders' % o] = z3.BitVecVal(1, 8)
                S['ch:%s:recv' % o] = z3.BoolVal(True)
                S['ch:%s:len' % o] = z3.BitVecVal(0, 8)
            elif kind == 'send':
                ok = S['ch:%s:recv' % o]
                b.append(ev.res['ok'] == ok)
                ln = S['ch:%s:len' % o]
                S['overflow'] = z3.Or(S['overflow'], z3.And(ok, ln == self.chan_cap))
                for i in range(self.chan_cap):
                    S['ch:%s:p%d' % (o, i)] = z3.If(z3.And(ok, ln == i), ev.args[1], S['ch:%s:p%d' % (o, i)])
                S['ch:%s:len' % o] = z3.If(z3.And(ok, ln != self.chan_cap), ln + 1, ln)
            elif kind == 'recv':
                ln = S['ch:%s:len' % o]
                ne = z3.UGT(ln, 0)
                g.append(z3.Or(ne, S['ch:%s:senders' % o] == 0))
                b.append(ev.res['ok'] == ne)
                b.append(z3.Implies(ne, ev.res['payload'] == S['ch:%s:p0' % o]))
                for i in range(self.chan_cap - 1):
                    S['ch:%s:p%d' % (o, i)] = z3.If(ne, S['ch:%s:p%d' % (o, i + 1)], S['ch:%s:p%d' % (o, i)])
                S['ch:%s:len' % o] = z3.If(ne, ln - 1, ln)
            elif kind == 'try_recv':
                ln = S['ch:%s:len' % o]
                ne = z3.UGT(ln, 0)
                b.append(ev.res['ok'] == ne)
                b.append(ev.res['disc'] == z3.And(z3.Not(ne), S['ch:%s:senders' % o] == 0))
                b.append(z3.Implies(ne, ev.res['payload'] == S['ch:%s:p0' % o]))
                for i in range(self.chan_cap - 1):
                    S['ch:%s:p%d' % (o, i)] = z3.If(ne, S['ch:%s:p%d' % (o, i + 1)], S['ch:%s:p%d' % (o, i)])
                S['ch:%s:len' % o] = z3.If(ne, ln - 1, ln)
            elif kind == 'drop_sender':
                S['ch:%s:senders' % o] = S['ch:%s:senders' % o] - 1
            elif kind == 'sender_clone':
                S['ch:%s:senders' % o] = S['ch:%s:senders' % o] + 1
            elif kind == 'drop_receiver':
                S['ch:%s:recv' % o] = z3.BoolVal(False)
                S['ch:%s:len' % o] = z3.BitVecVal(0, 8)
            else:
                if not (self.hooks and self.hooks.apply_event(self, ev, S, t, k, g, b)):
                    raise Unsupported('BMC: no semantics for event ' + kind)
            if self.hooks:
                self.hooks.observe(self, ev, S, t, k, g, b)
        return g, b, S

    def _parked_on(self, u, S, cv):
        # u is parked at a location whose wait is on condvar cv
        locs = [l for l, e in u.park_locs.items() if e.obj == cv]
        if not locs:
            return z3.BoolVal(False)
        return z3.And(S['parked:' + u.name], z3.Or(*[S['pc:' + u.name] == l for l in locs]))

    # ---------------------------------------------------------------- unrolling
    def build(self):
        t0 = time.time()
        K = self.K
        self.S = [self.state_vars(k) for k in range(K + 1)]
        self.aux = [dict() for _ in range(K + 1)]
        cons = self.cons
        cons += self.initial(self.S[0])
        for t in self.threads:
            for tr in t.trees:
                cons += list(tr.assumptions.values())
        # the clock never wraps inside the bound: start and every advance are below 2^40 ns (~18 min) -- stated bound
        cons.append(z3.ULE(self.S[0]['now'], bv(1 << 40)))
        ncmd = len(self.cmds)
        STUTTER = ncmd
        self.cmdvar = [z3.BitVec('cmd@%d' % k, 16) for k in range(K)]
        self.adv = [z3.BitVec('adv@%d' % k, 64) for k in range(K)]
        for k in range(K):
            S0 = self.S[k]
            S1 = self.S[k + 1]
            cv = self.cmdvar[k]
            cons.append(z3.ULE(cv, STUTTER))
            # time advances at the start of the step
            Sin = dict(S0)
            nowp = S0['now'] + self.adv[k]
            cons.append(z3.ULE(self.adv[k], bv(1 << 40)) if self.use_clock else self.adv[k] == 0)
            Sin['now'] = nowp
            updates = {name: [] for name in S0}
            for c in self.cmds:
                fire = cv == c.idx
                n = c.thread.name
                g, b, Sout = self.apply(c, Sin, k)
                pre = [S0['pc:' + n] == c.src, S0['active:' + n]] + g + b
                cons.append(z3.Implies(fire, z3.And(*pre)))
                Sout['pc:' + n] = z3.BitVecVal(c.dst, 16)
                for name, val in Sout.items():
                    if val is not Sin.get(name):
                        updates[name].append((fire, val))
            for name in S0:
                e = Sin[name] if name == 'now' else S0[name]
                for fire, val in updates[name]:
                    e = z3.If(fire, val, e)
                cons.append(S1[name] == e)
        if self.fixed_schedule:
            for k, tn in enumerate(self.fixed_schedule):
                idxs = [c.idx for c in self.cmds if c.thread.name == tn]
                cons.append(z3.Or(*[self.cmdvar[k] == i for i in idxs]))
                cons.append(self.adv[k] == 0)
        # symmetry breaking: in a group of identical threads, thread i+1 leaves its start only after thread i did
        for group in self.symmetry:
            for a, b_ in zip(group, group[1:]):
                for k in range(K + 1):
                    cons.append(z3.Implies(self.S[k]['pc:' + b_] != 0, self.S[k]['pc:' + a] != 0))
        self.build_seconds = time.time() - t0
        return cons

    # ---------------------------------------------------------------- predicates for properties
    def enabled_q(self, t, S):
        """thread t can take a step from S without a spurious wake-up (time may pass)"""
        n = t.name
        alts = []
        for key, l in t.locs.items():
            at = S['pc:' + n] == l
            if l in t.term_locs:
                continue
            if l in t.park_locs:
                ev = t.park_locs[l]
                alts.append(z3.And(at, z3.Or(S['notified:' + n], S['timed:' + n]), z3.Not(S['mx:' + ev.extra])))
            elif l in t.lock_locs:
                alts.append(z3.And(at, z3.Not(S['mx:' + t.lock_locs[l]])))
            elif l in t.recv_locs:
                o = t.recv_locs[l]
                alts.append(z3.And(at, z3.Or(z3.UGT(S['ch:%s:len' % o], 0), S['ch:%s:senders' % o] == 0)))
            else:
                alts.append(at)
        return z3.And(S['active:' + n], z3.Or(*alts)) if alts else z3.BoolVal(False)

    def quiescent(self, S):
        return z3.And(*[z3.Not(self.enabled_q(t, S)) for t in self.threads])

    def at_term(self, t, S, prefix=None):
        ls = [l for l, term in t.term_locs.items() if prefix is None or term.startswith(prefix)]
        if not ls:
            return z3.BoolVal(False)
        return z3.Or(*[S['pc:' + t.name] == l for l in ls])

    def parked_at(self, t, S, pred=None):
        ls = [l for l, ev in t.park_locs.items() if pred is None or pred(ev)]
        if not ls:
            return z3.BoolVal(False)
        return z3.And(S['parked:' + t.name], z3.Or(*[S['pc:' + t.name] == l for l in ls]))

    def frontier_reached(self):
        # frontier locations are absorbing and the overflow flag is sticky: looking at the last state is enough
        alts = []
        for t in self.threads:
            alts.append(self.at_term(t, self.S[self.K], 'frontier'))
        alts.append(self.S[self.K]['overflow'])
        return z3.Or(*alts)

    # ---------------------------------------------------------------- solving
    def solve(self, prop_violation, timeout_ms=120000, seed=0, extra=()):
        s = z3.SolverFor('QF_BV') if not self._needs_arrays() else z3.Solver()
        s.set('timeout', timeout_ms)
        try:
            s.set('random_seed', seed)
        except Exception:
            pass
        s.add(*self.cons)
        s.add(*extra)
        s.add(prop_violation)
        t0 = time.time()
        r = s.check()
        dt = time.time() - t0
        m = s.model() if r == z3.sat else None
        return r, m, dt

    def _needs_arrays(self):
        return False

    def final_state(self, m):
        """values of all state variables at step K in model m (used to start another unrolling from there)"""
        out = {}
        for n, v in self.S[self.K].items():
            out[n] = m.eval(v, model_completion=True)
        return out

    def pinned_results(self, m):
        """equalities fixing the result symbols of the operations that fired in model m (prefix run); symbols of
        operations that did not fire stay free"""
        cs = []
        for k in range(self.K):
            ci = m.eval(self.cmdvar[k], model_completion=True).as_long()
            if ci >= len(self.cmds):
                continue
            for st in self.cmds[ci].steps:
                if st[0] in ('ev', 'wake'):
                    for v in st[1].res.values():
                        cs.append(v == m.eval(v, model_completion=True))
        return cs

    def trace_ops(self, m):
        """operation-level schedule from a model: list of (thread, op, params) in execution order (for the controlled-runtime
        replay): notify targets, timed_out flags, clock values and spawned thread names are read from the model"""
        out = []
        ev = lambda e: m.eval(e, model_completion=True)
        for k in range(self.K):
            ci = ev(self.cmdvar[k]).as_long()
            if ci >= len(self.cmds):
                continue
            c = self.cmds[ci]
            tn = c.thread.name
            nsel = 0
            for st in c.steps:
                if st[0] == 'br':
                    continue
                e = st[1]
                if st[0] == 'wake':
                    to = e.res.get('timed_out')
                    out.append((tn, 'wake', {'timed_out': int(bool(z3.is_true(ev(to)))) if to is not None else 0}))
                    continue
                kind = e.kind
                p = {}
                if e.obj is not None:
                    p['obj'] = e.obj
                if kind == 'wait_timeout':
                    p['dur'] = ev(e.args[0]).as_long()
                elif kind == 'notify_one':
                    sels = self.notify_sels.get((k, ci), [])
                    tgt = 'none'
                    if nsel < len(sels):
                        for un, sv in sels[nsel]:
                            if z3.is_true(ev(sv)):
                                tgt = un
                    nsel += 1
                    p['target'] = tgt
                elif kind == 'now':
                    p['t'] = ev(e.res['t']).as_long()
                elif kind == 'spawn':
                    before = self.S[k]
                    after = self.S[k + 1]
                    for u in self.threads:
                        if not u.active and not z3.is_true(ev(before['active:' + u.name])) and z3.is_true(ev(after['active:' + u.name])):
                            if not any(x[1] == 'spawn' and x[2].get('child') == u.name for x in out):
                                p['child'] = u.name
                                break
                elif kind in ('a_store', 'a_fetch_add', 'a_fetch_sub') and e.args:
                    p['v'] = ev(e.args[0]).as_long()
                elif kind in ('q_push', 'send') and len(e.args) > 1:
                    p['payload'] = ev(e.args[1]).as_long()
                elif kind == 'task_run' and e.args:
                    p['id'] = ev(e.args[0]).as_long()
                elif kind in ('observe', 'result'):
                    p['what'] = e.extra
                    if kind == 'result' and len(e.args) >= 3:
                        p['some'] = bool(z3.is_true(ev(e.args[1])))
                        p['id'] = ev(e.args[2]).as_long()
                    elif kind == 'observe' and e.args:
                        p['arg'] = ev(e.args[0]).as_long()
                out.append((tn, kind, p))
        return out

    def replay_info(self, m):
        """everything the controlled-runtime replay needs, as plain data"""
        ev = lambda e: m.eval(e, model_completion=True)
        SK = self.S[self.K]
        return {'ops': self.trace_ops(m),
                'parked': sorted(t.name for t in self.threads if z3.is_true(ev(SK['parked:' + t.name])) and z3.is_true(ev(SK['active:' + t.name]))),
                'finished': sorted(t.name for t in self.threads if z3.is_true(ev(self.at_term(t, SK))))}

    def trace(self, m):
        """readable schedule from a model"""
        out = []
        for k in range(self.K):
            ci = m.eval(self.cmdvar[k], model_completion=True).as_long()
            if ci >= len(self.cmds):
                continue
            c = self.cmds[ci]
            evs = []
            for st in c.steps:
                if st[0] == 'ev':
                    evs.append('%s(%s)' % (st[1].kind, st[1].obj))
                elif st[0] == 'wake':
                    to = st[1].res.get('timed_out')
                    evs.append('wake%s' % ('' if to is None else '[timed_out=%s]' % m.eval(to, model_completion=True)))
            now = m.eval(self.S[k + 1]['now'], model_completion=True).as_long()
            out.append({'step': k, 'thread': c.thread.name, 'ops': evs, 'now_ns': now})
        return out


# ------------------------------------------------------------------------------------------------ query runner
_QCTX = None


def _solve_one(i):
    enc, queries, timeout_ms, seed, extract = _QCTX
    name, viol, extra = queries[i]
    try:
        r, m, dt = enc.solve(viol, timeout_ms=timeout_ms, seed=seed, extra=extra)
    except Exception as e:       # pragma: no cover
        return (name, 'error:' + repr(e), 0.0, None, None)
    tr = enc.trace(m) if m is not None else None
    ex = extract(enc, m) if (m is not None and extract) else None
    return (name, str(r), dt, tr, ex)


def solve_many(enc, queries, timeout_ms=120000, seed=0, jobs=8, extract=None):
    """queries: list of (name, violation formula, extra constraints). Each is an independent SMT query, decided in its
    own process. returns list of (name, verdict, seconds, trace, extracted)"""
    global _QCTX
    import multiprocessing
    _QCTX = (enc, queries, timeout_ms, seed, extract)
    mp = multiprocessing.get_context('fork')
    with mp.Pool(min(jobs, max(1, len(queries)))) as pool:
        out = pool.map(_solve_one, range(len(queries)))
    _QCTX = None
    return out
