"""Replay of a schedule counterexample (BMC) on the real kernel code under the controlled runtime (replay/rtdrv)."""
import os
from . import replay_rt

_BIN = {}


def _binary_for(L):
    key = getattr(L, 'mir_hash', 'x')
    if key in _BIN:
        return _BIN[key]
    from . import load as _load
    work = getattr(L, 'work', None)
    scratch = getattr(L, 'scratch', None)
    if work is None or not os.path.isdir(work):
        scratch = _load.make_scratch('verif.rt.')
        work = os.path.join(scratch, 'repo')
        os.makedirs(work)
        _load.copy_repo(work)
    b = replay_rt.build(work, scratch)
    _BIN[key] = b
    return b


def queue_programs(ops, producers, receivers, unblockers):
    """thread programs of the queue model from the operation list: receivers' call flavours are read off the schedule"""
    th = []
    for name, ids in producers.items():
        th.append((name, 'push ' + ' '.join(str(i) for i in ids)))
    for name, ncalls in receivers.items():
        mine = [(o, p) for (t, o, p) in ops if t == name]
        calls = []
        cur = []
        for o, p in mine:
            cur.append((o, p))
            if o == 'result':
                calls.append(cur)
                cur = []
        if cur:
            calls.append(cur)
        words = []
        for c in calls[:ncalls]:
            kinds = [o for o, _ in c]
            fl = None
            for o, p in c:
                if o == 'result':
                    fl = p.get('what')
            if fl is None:
                fl = 'pop_timeout' if ('wait_timeout' in kinds or 'now' in kinds) else 'pop'
            if fl == 'pop_timeout':
                dur = [p.get('dur') for o, p in c if o == 'wait_timeout']
                words.append('pop_timeout %d' % (dur[0] if dur else 1000000000))
            else:
                words.append(fl)
        while len(words) < ncalls:
            words.append('try_pop')
        th.append((name, ' ; '.join(words)))
    for name in unblockers:
        th.append((name, 'unblock'))
    return th


def run_schedule(L, model, threads, ops, extra=None, timeout_s=40):
    sc = {'model': model, 'threads': threads, 'sched': [(t, o, {k: v for k, v in p.items() if k in ('timed_out', 'target', 't', 'child', 'dur')}) for (t, o, p) in ops]}
    if extra:
        sc.update(extra)
    return replay_rt.run(_binary_for(L), sc, timeout_s=timeout_s)


def confirm(L, v, model, threads, info, predicted, extra=None):
    """sets v.reproduced: True iff the real code followed the whole schedule (no divergence) and showed the predicted observables"""
    try:
        res = run_schedule(L, model, threads, info['ops'], extra)
    except Exception as e:
        v.replay_note = 'controlled-runtime replay failed to run: %r' % (e,)
        return None
    end = res.get('end') or {}
    obs = {'results': sorted((t, i, x) for (t, i, x) in res.get('results', [])),
           'task_runs': sorted(tuple(x) for x in res.get('task_runs', [])),
           'sink': [tuple(x) for x in res.get('sink', [])],
           'parked': sorted(n for n, st in (res.get('threads') or {}).items() if st in ('parked_wait', 'parked_timed'))}
    if isinstance(v.scenario, dict):
        v.scenario['native'] = {'end': end, 'diverged': res.get('diverged'), 'observed': obs, 'notes': res.get('notes')}
    if res.get('diverged') or end.get('reason') != 'exhausted':
        v.reproduced = False
        v.replay_note = 'the real code did not follow the model schedule: %r %r' % (res.get('diverged'), end)
        return res
    predicted = {k: [tuple(x) if isinstance(x, (list, tuple)) else x for x in val] for k, val in predicted.items()}
    diffs = {k: (predicted[k], obs.get(k)) for k in predicted if predicted[k] != obs.get(k)}
    v.reproduced = not diffs
    v.replay_note = 'real kernel code followed the whole schedule under the controlled runtime and showed the predicted observables' if not diffs \
        else 'schedule followed, observables differ: %r' % (diffs,)
    return res
