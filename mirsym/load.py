"""Regenerate the MIR of /repo's current working tree (and of the chunked_transfer dependency) in a scratch
directory and load it. Nothing is cached across runs: the encoding always comes from the current source."""
import os, subprocess, shutil, tempfile, hashlib, glob, atexit, time, sys
from .interp import Program

REPO = os.environ.get('VERIF_REPO', '/repo')
SCRATCH_BASE = os.environ.get('VERIF_SCRATCH', '/var/tmp')

_scratch = []


def _cleanup():
    for d in _scratch:
        shutil.rmtree(d, ignore_errors=True)


atexit.register(_cleanup)


def make_scratch(prefix='verif.'):
    d = tempfile.mkdtemp(prefix=prefix, dir=SCRATCH_BASE)
    _scratch.append(d)
    return d


def copy_repo(dst):
    subprocess.check_call(['rsync', '-a', '--exclude', 'target', '--exclude', '.git', REPO + '/', dst + '/'])


def cargo_env():
    env = dict(os.environ)
    env['CARGO_NET_OFFLINE'] = 'true'
    env.pop('RUSTFLAGS', None)
    return env


def dump_mir(workdir, target_dir, package=None):
    """returns MIR text of the lib (package=None: tiny_http)"""
    env = cargo_env()
    env['CARGO_TARGET_DIR'] = target_dir
    if package is None:
        os.utime(os.path.join(workdir, 'src', 'lib.rs'))
        cmd = ['cargo', '+nightly', 'rustc', '--offline', '--lib', '--', '-Zunpretty=mir', '-C', 'debug-assertions=off',
               '-C', 'overflow-checks=on']
    else:
        cmd = ['cargo', '+nightly', 'rustc', '--offline', '-p', package, '--lib', '--', '-Zunpretty=mir', '-C',
               'debug-assertions=off', '-C', 'overflow-checks=on']
    p = subprocess.run(cmd, cwd=workdir, env=env, stdout=subprocess.PIPE, stderr=subprocess.PIPE, text=True)
    if p.returncode != 0 or 'fn ' not in p.stdout:
        sys.stderr.write(p.stderr[-4000:])
        raise RuntimeError('MIR dump failed (package=%s): the tree does not compile?' % package)
    return p.stdout


def find_dep_src(workdir, name):
    """source directory of a registry dependency as resolved by Cargo.lock"""
    env = cargo_env()
    p = subprocess.run(['cargo', 'metadata', '--offline', '--format-version', '1'], cwd=workdir, env=env,
                       stdout=subprocess.PIPE, stderr=subprocess.PIPE, text=True)
    import json
    md = json.loads(p.stdout)
    for pk in md['packages']:
        if pk['name'] == name:
            return os.path.dirname(pk['manifest_path'])
    raise RuntimeError('dependency %s not found' % name)


class Loaded:
    pass


def load(with_deps=('chunked_transfer',), keep=False):
    t0 = time.time()
    d = make_scratch()
    work = os.path.join(d, 'repo')
    os.makedirs(work)
    copy_repo(work)
    tgt = os.path.join(d, 'target')
    texts = [('tiny_http', dump_mir(work, tgt))]
    src = {'tiny_http': work}
    for dep in with_deps:
        # cargo refuses -Zunpretty output for a non-primary package when it is fresh; force a rebuild of it
        depsrc = find_dep_src(work, dep)
        txt = dump_mir(work, os.path.join(d, 'target_' + dep), dep)
        texts.append((dep, txt))
        src[dep] = depsrc
    prog = Program(texts, src)
    L = Loaded()
    L.prog = prog
    L.scratch = d
    L.work = work
    L.texts = texts
    L.mir_seconds = time.time() - t0
    L.mir_hash = hashlib.sha256(''.join(t for _, t in texts).encode()).hexdigest()[:16]
    return L


def load_from_files(paths, src):
    texts = [(c, open(p).read()) for c, p in paths]
    prog = Program(texts, src)
    L = Loaded()
    L.prog = prog
    L.texts = texts
    L.mir_seconds = 0
    L.mir_hash = hashlib.sha256(''.join(t for _, t in texts).encode()).hexdigest()[:16]
    return L


def load_from_dir(d):
    """development only: d contains mir.txt, mir_ct.txt and r/ (a copy of the repo)"""
    dep = find_dep_src(os.path.join(d, 'r'), 'chunked_transfer')
    return load_from_files([('tiny_http', os.path.join(d, 'mir.txt')), ('chunked_transfer', os.path.join(d, 'mir_ct.txt'))],
                           {'tiny_http': os.path.join(d, 'r'), 'chunked_transfer': dep})
