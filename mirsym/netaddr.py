"""std::net address values and the few std calls tiny-http's shutdown path (and realistic variations of it) use on them.

  SocketAddr = Enum('SocketAddr', 'V4'|'V6', [Struct('SocketAddrVx', [ip: BV32|BV128, port: BV16])])
  IpAddr     = Enum('IpAddr', 'V4'|'V6', [ip])
The models record what the code does to the network / file system in ctx.data['net_log'].
"""
import z3
from .values import *
from .interp import Unsupported, RustPanic


def io_error(kind):
    from .models import io_error as f
    return f(kind)

V4_LOCALHOST = 0x7f000001
V6_LOCALHOST = 1


def sockaddr(fam, ip, port):
    return Enum('SocketAddr', 'V4' if fam == 4 else 'V6', 0 if fam == 4 else 1, [Struct('SocketAddrV4' if fam == 4 else 'SocketAddrV6', [ip, port])])


def ipaddr(fam, ip):
    return Enum('IpAddr', 'V4' if fam == 4 else 'V6', 0 if fam == 4 else 1, [ip])


def deref(it, v):
    n = 0
    while isinstance(v, Ref) and n < 8:
        v = it.read(v.root, v.path)
        n += 1
    return v


def fam_of(e):
    return 4 if e.variant == 'V4' else 6


def sa_parts(it, v):
    v = deref(it, v)
    if isinstance(v, Enum) and v.ty == 'SocketAddr':
        s = v.fields[0]
        return fam_of(v), s.fields[0], s.fields[1]
    if isinstance(v, Struct) and v.ty in ('SocketAddrV4', 'SocketAddrV6'):
        return (4 if v.ty.endswith('4') else 6), v.fields[0], v.fields[1]
    raise Unsupported('socket address value %r' % (v,))


def ip_parts(it, v):
    v = deref(it, v)
    if isinstance(v, Enum) and v.ty == 'IpAddr':
        return fam_of(v), v.fields[0]
    if z3.is_bv(v) and v.size() in (32, 128):
        return (4 if v.size() == 32 else 6), v
    if isinstance(v, Struct) and v.ty in ('Ipv4Addr', 'Ipv6Addr') and v.fields:
        return (4 if v.ty == 'Ipv4Addr' else 6), v.fields[0]
    raise Unsupported('ip address value %r' % (v,))


def target_of(it, v):
    """what a ToSocketAddrs argument resolves to: (family, ip, port); host names are not modelled"""
    v = deref(it, v)
    if isinstance(v, Struct) and v.ty == '(tuple)' and len(v.fields) == 2:
        f, ip = ip_parts(it, v.fields[0])
        return f, ip, v.fields[1]
    return sa_parts(it, v)


def log(it):
    return it.ctx.data.setdefault('net_log', [])


def m_connect(it, a, info):
    f, ip, port = target_of(it, a[0])
    n = len([e for e in log(it) if e[0] == 'connect'])
    log(it).append(('connect', f, ip, port))
    if it.ctx.choose(2, 'connect-result') == 0:
        return Ok(Opaque('TcpStream#%d' % n))
    return Err(io_error('ConnectionRefused'))


def m_connect_unix(it, a, info):
    p = deref(it, a[0])
    log(it).append(('connect_unix', p))
    if it.ctx.choose(2, 'connect-result') == 0:
        return Ok(Opaque('UnixStream'))
    return Err(io_error('ConnectionRefused'))


def m_shutdown(it, a, info):
    log(it).append(('shutdown', deref(it, a[0])))
    return Ok(unit())


def m_remove_file(it, a, info):
    log(it).append(('remove_file', deref(it, a[0])))
    return Ok(unit()) if it.ctx.choose(2, 'remove-result') == 0 else Err(io_error('ConnectionRefused'))


def m_as_pathname(it, a, info):
    v = deref(it, a[0])
    if isinstance(v, Struct) and v.ty == 'UnixSocketAddr':
        return Some(Ref(Cell(v.fields[0]), ())) if v.fields[0] is not None else NONE()
    raise Unsupported('as_pathname on %r' % (v,))


def m_port(it, a, info):
    return sa_parts(it, a[0])[2]


def m_ip(it, a, info):
    f, ip, _ = sa_parts(it, a[0])
    return ipaddr(f, ip)


def m_sa_new(it, a, info):
    f, ip = ip_parts(it, a[0])
    return sockaddr(f, ip, a[1])


def m_set_ip(it, a, info):
    f, ip = ip_parts(it, a[1])
    _, _, port = sa_parts(it, a[0])
    it.write(a[0].root, a[0].path, sockaddr(f, ip, port))
    return unit()


def m_set_port(it, a, info):
    f, ip, _ = sa_parts(it, a[0])
    it.write(a[0].root, a[0].path, sockaddr(f, ip, a[1]))
    return unit()


def m_is_ipv4(it, a, info):
    v = deref(it, a[0])
    return z3.BoolVal(v.variant == 'V4')


def m_is_ipv6(it, a, info):
    v = deref(it, a[0])
    return z3.BoolVal(v.variant == 'V6')


def m_is_unspecified(it, a, info):
    f, ip = ip_parts(it, a[0])
    return ip == 0


def m_is_loopback(it, a, info):
    f, ip = ip_parts(it, a[0])
    if f == 4:
        return z3.Extract(31, 24, ip) == 127
    return ip == V6_LOCALHOST


def m_into_ip(it, a, info):
    f, ip = ip_parts(it, a[0])
    return ipaddr(f, ip)


def m_into_sa(it, a, info):
    v = deref(it, a[0])
    if isinstance(v, Struct) and v.ty == '(tuple)':
        f, ip = ip_parts(it, v.fields[0])
        return sockaddr(f, ip, v.fields[1])
    f, ip, port = sa_parts(it, v)
    return sockaddr(f, ip, port)


def m_v4_new(it, a, info):
    return z3.Concat(*a[:4])


NET_MODELS = {
    'TcpStream::connect': m_connect,
    'UnixStream::connect': m_connect_unix,
    'TcpStream::shutdown': m_shutdown,
    'UnixStream::shutdown': m_shutdown,
    'remove_file': m_remove_file,
    'fs::remove_file': m_remove_file,
    'SocketAddr::as_pathname': m_as_pathname,
    'SocketAddr::port': m_port,
    'SocketAddr::ip': m_ip,
    'SocketAddr::new': m_sa_new,
    'SocketAddr::set_ip': m_set_ip,
    'SocketAddr::set_port': m_set_port,
    'SocketAddr::is_ipv4': m_is_ipv4,
    'SocketAddr::is_ipv6': m_is_ipv6,
    'IpAddr::is_unspecified': m_is_unspecified,
    'Ipv4Addr::is_unspecified': m_is_unspecified,
    'Ipv6Addr::is_unspecified': m_is_unspecified,
    'IpAddr::is_loopback': m_is_loopback,
    'Ipv4Addr::is_loopback': m_is_loopback,
    'Ipv6Addr::is_loopback': m_is_loopback,
    'IpAddr::is_ipv4': m_is_ipv4,
    'IpAddr::is_ipv6': m_is_ipv6,
    'Ipv4Addr::new': m_v4_new,
    '<Ipv4Addr as Into<IpAddr>>::into': m_into_ip,
    '<Ipv6Addr as Into<IpAddr>>::into': m_into_ip,
    '<IpAddr as From<Ipv4Addr>>::from': m_into_ip,
    '<IpAddr as From<Ipv6Addr>>::from': m_into_ip,
    'IpAddr::from': m_into_ip,
    '<(IpAddr, u16) as Into<SocketAddr>>::into': m_into_sa,
    'SocketAddr::from': m_into_sa,
}

# associated constants, looked up by the interpreter's named-constant table
NET_CONSTS = {
    'Ipv4Addr::LOCALHOST': lambda: z3.BitVecVal(V4_LOCALHOST, 32),
    'Ipv4Addr::UNSPECIFIED': lambda: z3.BitVecVal(0, 32),
    'Ipv4Addr::BROADCAST': lambda: z3.BitVecVal(0xffffffff, 32),
    'Ipv6Addr::LOCALHOST': lambda: z3.BitVecVal(V6_LOCALHOST, 128),
    'Ipv6Addr::UNSPECIFIED': lambda: z3.BitVecVal(0, 128),
}


def reaches(lf, lip, lport, tf, tip, tport):
    """does a connection attempt to (tip, tport) arrive at a listener bound to (lip, lport) on the same host?  Same family
    and port, and either the same address, or the listener is bound to the wildcard address and the target is a local
    address (loopback or the wildcard itself, which the kernel routes to the local host)"""
    if lf != tf:
        return z3.BoolVal(False)
    if lf == 4:
        local = z3.Or(z3.Extract(31, 24, tip) == 127, tip == 0)
    else:
        local = z3.Or(tip == V6_LOCALHOST, tip == 0)
    return z3.And(tport == lport, z3.Or(tip == lip, z3.And(lip == 0, local)))
