"""Concrete replay of a client/handler scenario against the REAL compiled
tiny-http library over loopback TCP (driver source: /verif/replay/netdrv).

    binary = build(repo_dir, scratch_dir)
    result = run(binary, {'bytes': b'GET / HTTP/1.1\\r\\nHost: x\\r\\n\\r\\n',
                          'mode': 'respond_all'})

SCENARIO keys (dict given to run(); written as one `key=value` per line)
  bytes                bytes    client bytes to send (whole connection)
  segs                 [int]    sizes of the successive write() calls (rest in
                                one final write); 5 ms pause between segments
  half_close           bool     shutdown(Write) the client socket after sending
  close_after_send_ms  int      fully close the client socket N ms after sending
  wait_ms              int      total time client reads / server receives (1500)
  mode                 respond_all | hold_first | drop_all | never_answer |
                       read_then_respond
  hold_ms              int      (400) hold_first: release the first request after
                                hold_ms, at the latest at wait_ms-300
  status               int      (200)
  body                 bytes    response body ("hello")
  read_sizes           [int]    read_then_respond: successive read() buffer sizes
  recv                 recv | recv_timeout | try_recv

OUTPUT records of the driver (stdout, hex for byte strings)
  PORT <n>
  REQ <i> method=<hex> url=<hex> version=<a>.<b> nheaders=<k>
          body_length=<n|none> remote=<some|none> t_ms=<ms>
  HDR <i> <j> name=<hex> value=<hex>
  BODY <i> <hex> result=<ok|err:Kind|panic> reads=<n1,n2,..>
  RESPOND_START <i> t_ms=<ms>                 respond() is about to be called
  RESPOND <i> result=<ok|err:Kind|panic> t_ms=<ms>   respond() returned
          (hold_first answers requests 1.. on helper threads: with pipelined
           requests the library blocks respond(i) until 0..i-1 are answered;
           RESPONDERS_STUCK n=<k> is printed if some never returned)
  DROP <i> result=<ok|panic> t_ms=<ms>       request dropped without respond
  CLIENT_SENT n=<bytes> t_ms=<ms>
  CLIENT_WRITE_ERR kind=<Kind> sent=<n> t_ms=<ms>
  CLIENT_CHUNK t_ms=<ms> <hex>
  CLIENT_CLOSED t_ms=<ms>                    (close_after_send_ms fired)
  CLIENT_END eof=<0|1> total=<n> t_ms=<ms> err=<none|Kind>
  CLIENT_LATE_CHUNK t_ms=<ms> <hex>          bytes seen in the 250 ms after
  CLIENT_LATE_END eof=.. total=.. t_ms=..    wait_ms (effect of the final drop,
                                             which happens at wait_ms+50)
  RECV_ERR kind=.. msg=.. t_ms=..
  HANDLER_END t_ms=<ms>
  WATCHDOG t_ms=<ms>                         handler thread was stuck
  PANIC [k] thread=.. at=file:line msg=..    (printed when it happens and again
                                              at the end; deduplicated here)
  DONE
"""

import hashlib
import os
import re
import shutil
import subprocess
import tempfile

_HERE = os.path.dirname(os.path.abspath(__file__))
NETDRV_SRC = os.path.join(os.path.dirname(_HERE), 'replay', 'netdrv')

# abspath(repo_dir) -> (fingerprint of the sources, path of the binary)
_BUILT = {}


def _fingerprint(repo_dir):
    h = hashlib.sha256()
    paths = [os.path.join(repo_dir, 'Cargo.toml')]
    for root, dirs, files in os.walk(os.path.join(repo_dir, 'src')):
        dirs.sort()
        for f in sorted(files):
            paths.append(os.path.join(root, f))
    for root, dirs, files in os.walk(NETDRV_SRC):
        dirs.sort()
        for f in sorted(files):
            paths.append(os.path.join(root, f))
    for p in paths:
        try:
            with open(p, 'rb') as fh:
                h.update(p.encode() + b'\0' + fh.read() + b'\0')
        except OSError:
            h.update(p.encode() + b'\0<missing>\0')
    return h.hexdigest()


def build(repo_dir, scratch_dir, timeout_s=900):
    """Build the driver against the tiny-http copy in repo_dir; returns the
    path of the binary.  Raises RuntimeError (with the stderr tail) on failure.
    The result is cached per repo_dir (rebuilt if its sources changed)."""
    repo_dir = os.path.abspath(repo_dir)
    scratch_dir = os.path.abspath(scratch_dir)
    fp = _fingerprint(repo_dir)
    hit = _BUILT.get(repo_dir)
    if hit and hit[0] == fp and os.path.isfile(hit[1]):
        return hit[1]

    os.makedirs(scratch_dir, exist_ok=True)
    dst = os.path.join(scratch_dir, 'netdrv')
    target = os.path.join(scratch_dir, 'netdrv_target')
    if os.path.exists(dst):
        shutil.rmtree(dst)
    shutil.copytree(NETDRV_SRC, dst)
    with open(os.path.join(dst, 'Cargo.toml.in')) as fh:
        tmpl = fh.read()
    with open(os.path.join(dst, 'Cargo.toml'), 'w') as fh:
        fh.write(tmpl.replace('@REPO@', repo_dir.replace('\\', '/')))
    os.remove(os.path.join(dst, 'Cargo.toml.in'))

    env = dict(os.environ)
    env['CARGO_TARGET_DIR'] = target
    env['CARGO_NET_OFFLINE'] = 'true'
    env.pop('RUSTFLAGS', None)
    env.pop('RUSTC_WRAPPER', None)
    cmd = ['cargo', 'build', '--offline', '--release']

    def attempt(with_lock):
        lock_dst = os.path.join(dst, 'Cargo.lock')
        if os.path.exists(lock_dst):
            os.remove(lock_dst)
        lock_src = os.path.join(repo_dir, 'Cargo.lock')
        if with_lock and os.path.isfile(lock_src):
            # pins ascii / chunked_transfer / httpdate / log to the versions
            # available in the offline registry
            shutil.copyfile(lock_src, lock_dst)
        try:
            p = subprocess.run(cmd, cwd=dst, env=env, stdout=subprocess.PIPE,
                               stderr=subprocess.PIPE, timeout=timeout_s)
        except subprocess.TimeoutExpired as e:
            err = e.stderr or b''
            return None, 'cargo build timed out\n' + err.decode('utf-8', 'replace')
        return p.returncode, p.stderr.decode('utf-8', 'replace')

    rc, err = attempt(True)
    if rc != 0:
        rc2, err2 = attempt(False)
        if rc2 == 0:
            rc, err = rc2, err2
        else:
            err = err + '\n--- retry without Cargo.lock ---\n' + err2
    binary = os.path.join(target, 'release', 'netdrv')
    if rc != 0 or not os.path.isfile(binary):
        tail = '\n'.join(err.splitlines()[-40:])
        raise RuntimeError('netdrv build failed (rc=%r) for %s:\n%s'
                           % (rc, repo_dir, tail))
    _BUILT[repo_dir] = (fp, binary)
    return binary


# ------------------------------------------------------------------ run

def _fmt_value(v):
    if isinstance(v, (bytes, bytearray)):
        return bytes(v).hex()
    if isinstance(v, bool):
        return '1' if v else '0'
    if isinstance(v, (list, tuple)):
        return ','.join(str(int(x)) for x in v)
    return str(v)


def scenario_text(scenario):
    lines = []
    for k, v in scenario.items():
        if v is None:
            continue
        lines.append('%s=%s' % (k, _fmt_value(v)))
    return '\n'.join(lines) + '\n'


def _kv(tokens):
    d = {}
    for t in tokens:
        if '=' in t:
            k, v = t.split('=', 1)
            d[k] = v
    return d


def _unhex(s):
    try:
        return bytes.fromhex(s)
    except ValueError:
        return b''


_BODY_RE = re.compile(r'^BODY (\d+) ([0-9a-fA-F]*) ?result=(\S*)(?: reads=(\S*))?\s*$')


def parse_output(text):
    res = {
        'port': None,
        'requests': [],
        'client_bytes': b'',
        'client_chunks': [],
        'client_eof': False,
        'client_end': None,        # dict of the CLIENT_END record
        'client_sent': None,
        'client_write_err': None,
        'client_closed_t_ms': None,
        'client_late_bytes': b'',
        'client_late_chunks': [],
        'client_late_eof': False,
        'recv_errors': [],
        'panics': [],
        'watchdog': False,
        'responders_stuck': 0,
        'done': False,
        'other': [],
    }
    reqs = {}

    def req(i):
        if i not in reqs:
            reqs[i] = {'i': i, 'method': None, 'url': None, 'version': None,
                       'headers': [], 'body_length': None, 'remote': None,
                       't_ms': None, 'body': None, 'body_result': None,
                       'body_reads': None, 'respond': None,
                       'respond_start_t_ms': None,
                       'respond_t_ms': None, 'dropped': None,
                       'dropped_t_ms': None}
        return reqs[i]

    for line in text.splitlines():
        line = line.rstrip('\r')
        if not line:
            continue
        tok = line.split(' ')
        tag = tok[0]
        try:
            if tag == 'PORT':
                res['port'] = int(tok[1])
            elif tag == 'REQ':
                r = req(int(tok[1]))
                kv = _kv(tok[2:])
                r['method'] = _unhex(kv.get('method', ''))
                r['url'] = _unhex(kv.get('url', ''))
                a, b = kv.get('version', '0.0').split('.', 1)
                r['version'] = (int(a), int(b))
                bl = kv.get('body_length', 'none')
                r['body_length'] = None if bl == 'none' else int(bl)
                r['remote'] = kv.get('remote') == 'some'
                r['t_ms'] = int(kv.get('t_ms', '0'))
                r['nheaders'] = int(kv.get('nheaders', '0'))
            elif tag == 'HDR':
                r = req(int(tok[1]))
                kv = _kv(tok[3:])
                r['headers'].append((_unhex(kv.get('name', '')),
                                     _unhex(kv.get('value', ''))))
            elif tag == 'BODY':
                m = _BODY_RE.match(line)
                if m:
                    r = req(int(m.group(1)))
                    r['body'] = _unhex(m.group(2))
                    r['body_result'] = m.group(3)
                    rs = m.group(4) or ''
                    r['body_reads'] = [int(x) for x in rs.split(',') if x]
                else:
                    res['other'].append(line)
            elif tag == 'RESPOND_START':
                r = req(int(tok[1]))
                r['respond_start_t_ms'] = int(_kv(tok[2:]).get('t_ms', '0'))
            elif tag == 'RESPONDERS_STUCK':
                res['responders_stuck'] = int(_kv(tok[1:]).get('n', '0'))
            elif tag == 'RESPOND':
                r = req(int(tok[1]))
                kv = _kv(tok[2:])
                r['respond'] = kv.get('result')
                r['respond_t_ms'] = int(kv.get('t_ms', '0'))
            elif tag == 'DROP':
                r = req(int(tok[1]))
                kv = _kv(tok[2:])
                r['dropped'] = kv.get('result')
                r['dropped_t_ms'] = int(kv.get('t_ms', '0'))
            elif tag in ('CLIENT_CHUNK', 'CLIENT_LATE_CHUNK'):
                kv = _kv(tok[1:2])
                data = _unhex(tok[2]) if len(tok) > 2 else b''
                t = int(kv.get('t_ms', '0'))
                if tag == 'CLIENT_CHUNK':
                    res['client_chunks'].append((t, data))
                    res['client_bytes'] += data
                else:
                    res['client_late_chunks'].append((t, data))
                    res['client_late_bytes'] += data
            elif tag == 'CLIENT_END':
                kv = _kv(tok[1:])
                res['client_end'] = kv
                res['client_eof'] = kv.get('eof') == '1'
            elif tag == 'CLIENT_LATE_END':
                kv = _kv(tok[1:])
                res['client_late_eof'] = kv.get('eof') == '1'
            elif tag == 'CLIENT_SENT':
                kv = _kv(tok[1:])
                res['client_sent'] = int(kv.get('n', '0'))
            elif tag == 'CLIENT_WRITE_ERR':
                res['client_write_err'] = _kv(tok[1:])
            elif tag == 'CLIENT_CLOSED':
                res['client_closed_t_ms'] = int(_kv(tok[1:]).get('t_ms', '0'))
            elif tag == 'RECV_ERR':
                res['recv_errors'].append(line[len('RECV_ERR '):])
            elif tag == 'PANIC':
                msg = line[len('PANIC '):]
                if msg not in res['panics']:
                    res['panics'].append(msg)
            elif tag == 'WATCHDOG':
                res['watchdog'] = True
            elif tag == 'DONE':
                res['done'] = True
            else:
                res['other'].append(line)
        except (ValueError, IndexError):
            res['other'].append(line)
    res['requests'] = [reqs[i] for i in sorted(reqs)]
    return res


def run(binary, scenario, timeout_s=20):
    """Run one scenario; never hangs (the process is killed after timeout_s)."""
    fd, path = tempfile.mkstemp(prefix='netdrv_scn_', suffix='.txt')
    timed_out = False
    out = b''
    err = b''
    code = None
    try:
        with os.fdopen(fd, 'w') as fh:
            fh.write(scenario_text(scenario))
        try:
            p = subprocess.Popen([binary, path], stdin=subprocess.DEVNULL,
                                 stdout=subprocess.PIPE, stderr=subprocess.PIPE)
        except OSError as e:
            res = parse_output('')
            res.update({'timeout': False, 'exit': -1, 'raw': '',
                        'stderr': 'cannot start %s: %s' % (binary, e)})
            return res
        try:
            out, err = p.communicate(timeout=timeout_s)
        except subprocess.TimeoutExpired:
            timed_out = True
            p.kill()
            try:
                out, err = p.communicate(timeout=5)
            except subprocess.TimeoutExpired:
                out, err = b'', b''
        code = p.returncode
    finally:
        try:
            os.remove(path)
        except OSError:
            pass
    raw = out.decode('utf-8', 'replace')
    res = parse_output(raw)
    res['timeout'] = timed_out
    res['exit'] = code if code is not None else -1
    res['raw'] = raw
    res['stderr'] = err.decode('utf-8', 'replace')
    return res


# ------------------------------------------------------------------ self-test

if __name__ == '__main__':
    import pprint
    import sys

    src_repo = sys.argv[1] if len(sys.argv) > 1 else '/repo'
    tmp = tempfile.mkdtemp(prefix='replay_net_selftest_', dir='/var/tmp')
    ok = True
    try:
        repo_copy = os.path.join(tmp, 'repo')
        shutil.copytree(src_repo, repo_copy,
                        ignore=shutil.ignore_patterns('target', '.git'))
        binary = build(repo_copy, os.path.join(tmp, 'scratch'))
        assert build(repo_copy, os.path.join(tmp, 'scratch')) == binary  # cached
        print('built', binary)

        def show(name, r):
            print('=== %s' % name)
            print(r['raw'], end='')
            if r['stderr']:
                print('--- stderr:\n' + r['stderr'])
            pprint.pprint({k: v for k, v in r.items() if k not in ('raw',)})

        r1 = run(binary, {'bytes': b'GET /a HTTP/1.1\r\nHost: x\r\n\r\n',
                          'mode': 'respond_all', 'wait_ms': 800})
        show('plain GET, respond_all', r1)
        c1 = (not r1['timeout'] and r1['exit'] == 0 and r1['done']
              and len(r1['requests']) == 1
              and r1['requests'][0]['method'] == b'GET'
              and r1['requests'][0]['url'] == b'/a'
              and r1['requests'][0]['version'] == (1, 1)
              and r1['requests'][0]['headers'] == [(b'Host', b'x')]
              and r1['requests'][0]['respond'] == 'ok'
              and r1['client_bytes'].startswith(b'HTTP/1.1 200 ')
              and r1['client_bytes'].endswith(b'\r\n\r\nhello')
              and not r1['panics'])
        print('CHECK respond_all:', 'PASS' if c1 else 'FAIL')
        ok = ok and c1

        two = (b'GET /first HTTP/1.1\r\nHost: x\r\n\r\n'
               b'GET /second HTTP/1.1\r\nHost: x\r\n\r\n')
        r2 = run(binary, {'bytes': two, 'mode': 'hold_first', 'hold_ms': 300,
                          'wait_ms': 1200})
        show('two pipelined GETs, hold_first', r2)
        c2 = (not r2['timeout'] and r2['exit'] == 0 and r2['done']
              and len(r2['requests']) >= 1
              and r2['requests'][0]['url'] == b'/first'
              and r2['requests'][0]['respond'] == 'ok'
              and r2['requests'][0]['respond_t_ms'] - r2['requests'][0]['t_ms'] >= 300
              and len(r2['requests']) == 2
              and r2['requests'][1]['respond'] == 'ok'
              and r2['requests'][1]['respond_start_t_ms'] < 300
              and not r2['watchdog']
              and not r2['panics'])
        print('CHECK hold_first:', 'PASS' if c2 else 'FAIL',
              '(requests delivered: %d)' % len(r2['requests']))
        ok = ok and c2

        # a few more modes, only printed (smoke)
        post = b'POST /p HTTP/1.1\r\nHost: x\r\nContent-Length: 5\r\n\r\nabcde'
        r3 = run(binary, {'bytes': post, 'mode': 'read_then_respond',
                          'read_sizes': [2], 'segs': [10, 20], 'wait_ms': 600,
                          'recv': 'recv'})
        show('POST, read_then_respond, recv', r3)
        c3 = (r3['done'] and len(r3['requests']) == 1
              and r3['requests'][0]['body'] == b'abcde'
              and r3['requests'][0]['body_length'] == 5)
        print('CHECK read_then_respond:', 'PASS' if c3 else 'FAIL')
        ok = ok and c3

        r4 = run(binary, {'bytes': b'GET /n HTTP/1.1\r\nHost: x\r\n\r\n',
                          'mode': 'never_answer', 'wait_ms': 500,
                          'recv': 'try_recv', 'half_close': True})
        show('GET, never_answer, try_recv, half_close', r4)
        c4 = (r4['done'] and len(r4['requests']) == 1
              and r4['requests'][0]['respond'] is None
              and r4['requests'][0]['dropped'] == 'ok'
              and r4['client_bytes'] == b''
              and r4['client_late_bytes'].startswith(b'HTTP/1.1 500'))
        print('CHECK never_answer:', 'PASS' if c4 else 'FAIL')
        ok = ok and c4

        r5 = run(binary, {'bytes': b'GET /d HTTP/1.1\r\nHost: x\r\n\r\n',
                          'mode': 'drop_all', 'wait_ms': 500,
                          'close_after_send_ms': 100})
        show('GET, drop_all, close_after_send_ms', r5)
        c5 = (r5['done'] and len(r5['requests']) == 1
              and r5['requests'][0]['dropped'] == 'ok'
              and r5['client_bytes'].startswith(b'HTTP/1.1 500'))
        print('CHECK drop_all:', 'PASS' if c5 else 'FAIL')
        ok = ok and c5
    finally:
        shutil.rmtree(tmp, ignore_errors=True)
    print('SELFTEST', 'PASS' if ok else 'FAIL')
    sys.exit(0 if ok else 1)


# ----------------------------------------------------------------------------------------------- confirmation of counterexamples
_LBUILD = {}


def _binary_for(L):
    """driver built against the same source tree the MIR was dumped from"""
    key = getattr(L, 'mir_hash', 'x')
    if key in _LBUILD:
        return _LBUILD[key]
    from . import load as _load
    work = getattr(L, 'work', None)
    scratch = getattr(L, 'scratch', None)
    if work is None or not os.path.isdir(work):
        scratch = _load.make_scratch('verif.replay.')
        work = os.path.join(scratch, 'repo')
        os.makedirs(work)
        _load.copy_repo(work)
    b = build(work, scratch)
    _LBUILD[key] = b
    return b


def observe(L, scenario, timeout_s=25):
    """run a 'conversation' scenario natively; returns the observables used for comparison"""
    from .env import parse_responses
    if scenario.get('bytes_hex'):
        data = bytes.fromhex(scenario['bytes_hex'])
    elif scenario.get('text') is not None:
        data = scenario['text'].encode('latin1')
    else:
        return None
    sc = {'bytes': data, 'mode': scenario.get('mode', 'respond_all'), 'half_close': scenario.get('half_close', True),
          'wait_ms': scenario.get('wait_ms', 1200), 'hold_ms': scenario.get('hold_ms', 300)}
    res = run(_binary_for(L), sc, timeout_s=timeout_s)
    cb = res.get('client_bytes', b'') + res.get('client_late_bytes', b'')
    rs = parse_responses(cb)
    return {'urls': [r['url'].decode('latin1') for r in res.get('requests', [])],
            'codes': [r.get('status') for r in rs if r.get('status') is not None],
            'panics': len(res.get('panics', [])),
            'eof': bool(res.get('client_eof') or res.get('client_late_eof')),
            'silent': len(cb) == 0,
            'body_lengths': [r.get('body_length') for r in res.get('requests', [])]}


def confirm(L, v):
    """replay the violation's scenario on the real build. Sets v.reproduced (True / False / None = not replayable)."""
    sc = v.scenario
    if not isinstance(sc, dict) or not str(sc.get('kind', '')).startswith('conversation'):
        return
    pred = sc.get('predicted')
    try:
        nat = observe(L, sc)
    except Exception as e:      # build or run failure: not a verdict
        v.replay_note = 'native replay failed: %r' % (e,)
        return
    if nat is None:
        return
    sc['native'] = nat
    if not pred:
        v.replay_note = 'replayed natively (observables attached); no model prediction to compare with'
        return
    diffs = {k: (pred[k], nat.get(k)) for k in pred if pred[k] != nat.get(k)}
    if diffs:
        try:
            nat2 = observe(L, dict(sc, wait_ms=4000, hold_ms=800), timeout_s=40)
            if nat2 is not None:
                nat = nat2
                sc['native'] = nat
                diffs = {k: (pred[k], nat.get(k)) for k in pred if pred[k] != nat.get(k)}
        except Exception:
            pass
    v.reproduced = not diffs
    v.replay_note = 'native observables equal the model prediction' if not diffs else 'model/native differ: %r' % (diffs,)


def confirm_choose(L, v):
    return
