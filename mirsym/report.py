"""Result collection, evidence files, known findings, exit codes (DESIGN.md §2.6)."""
import json, os, time, sys, hashlib

VERIF = os.path.dirname(os.path.dirname(os.path.abspath(__file__)))
# development only (tools/try_mutant.sh): results of runs against modified copies must not overwrite the evidence of /repo
EVID = os.environ.get('VERIF_EVIDENCE_DIR') or os.path.join(VERIF, 'evidence')
KNOWN = os.path.join(VERIF, 'known_findings.json')


def load_known():
    if not os.path.exists(KNOWN):
        return []
    with open(KNOWN) as fh:
        return json.load(fh).get('findings', [])


def is_open_known(prop, key):
    """True iff key names an OPEN known finding of prop (those are suppressed; everything else is replayed and reported)"""
    return key is not None and any(k.get('property') == prop and k.get('key') == key and k.get('status', 'open') == 'open' for k in load_known())


class Violation:
    def __init__(self, prop, key, what, scenario=None, obligation=None):
        self.prop = prop
        self.key = key              # role key (known-finding predicate name) or None
        self.what = what            # human readable
        self.scenario = scenario    # dict, JSON-able replay scenario
        self.obligation = obligation
        self.reproduced = None      # True / False / None (not replayable)
        self.replay_path = None
        self.replay_note = None


class Report:
    def __init__(self, prop, tier, seed):
        self.prop = prop
        self.tier = tier
        self.seed = seed
        self.t0 = time.time()
        self.obligations = []      # dict(name, verdict, paths, queries, seconds, bound, witness)
        self.violations = []
        self.inconclusive = []
        self.functions = set()
        self.assumptions = []
        self.samples = []
        self.bounds = {}
        self.extra = {}
        self.solver_seconds = 0.0
        self.queries = 0
        self.paths = 0
        self.states = 0
        self.transitions = 0
        self.replays = 0
        self.notes = []
        self.mir_hash = None

    def obligation(self, name, verdict, **kw):
        d = {'name': name, 'verdict': verdict}
        d.update(kw)
        self.obligations.append(d)
        return d

    def violation(self, v):
        self.violations.append(v)

    def inconc(self, what):
        self.inconclusive.append(what)

    def sample(self, s):
        if len(self.samples) < 12:
            self.samples.append(s)

    # ------------------------------------------------------------------ finish
    def finish(self, level='model_checking'):
        known = [k for k in load_known() if k.get('property') == self.prop and k.get('status', 'open') == 'open']
        known_keys = {k['key']: k for k in known}
        exit_code = 0
        out = []
        nviol = 0
        seen_known = set()
        os.makedirs(os.path.join(EVID, 'replays'), exist_ok=True)
        for v in self.violations:
            if v.key in known_keys:
                if v.key not in seen_known:
                    seen_known.add(v.key)
                    out.append('KNOWN-FINDING: property=%s %s: %s' % (self.prop, v.key, known_keys[v.key].get('what', v.what)))
                continue
            if v.reproduced is False:
                self.inconc('counterexample for %s did not reproduce on the real build (%s): model or encoding is wrong'
                            % (v.obligation, v.replay_note))
                continue
            nviol += 1
            path = v.replay_path
            if path is None:
                h = hashlib.sha256(json.dumps(v.scenario, sort_keys=True, default=str).encode()).hexdigest()[:10]
                path = os.path.join(EVID, 'replays', '%s_%s.json' % (self.prop, h))
                with open(path, 'w') as fh:
                    json.dump({'property': self.prop, 'obligation': v.obligation, 'what': v.what, 'key': v.key,
                               'scenario': v.scenario, 'reproduced': v.reproduced, 'note': v.replay_note}, fh, indent=1, default=str)
            out.append('VIOLATION property=%s replay=%s' % (self.prop, path))
            out.append('  what: %s' % v.what)
            exit_code = 1
        if exit_code == 0 and self.inconclusive:
            exit_code = 2
        for l in out:
            print(l)
        for i in self.inconclusive:
            print('INCONCLUSIVE property=%s %s' % (self.prop, i))
        wall = time.time() - self.t0
        n_ob = len(self.obligations)
        n_dis = sum(1 for o in self.obligations if o['verdict'] in ('unsat', 'holds'))
        cov = {
            'states': max(1, self.states or self.paths),
            'transitions': max(1, self.transitions or self.queries),
            'traces_validated_against_impl': self.replays,
            'samples': self.samples or [o['name'] for o in self.obligations[:5]] or ['(none)'],
            'evaluations': max(1, self.queries),
            'distinct_nontrivial': max(2, n_ob),
            'rule': 'one evaluation = one SMT query (path feasibility or negated-property query); one distinct case = one '
                    'obligation (a property assertion decided over all values of the symbolic inputs of one harness shape)',
            'obligations': n_ob,
            'discharged': n_dis,
            'paths_explored': self.paths,
            'smt_queries': self.queries,
            'solver_seconds': round(self.solver_seconds, 2),
            'functions_encoded': sorted(self.functions),
            'bounds': self.bounds,
            'obligation_list': self.obligations,
            'known_findings_reported': sorted(seen_known),
            'inconclusive': self.inconclusive,
            'mir_sha256_16': self.mir_hash,
            'exhaustive': False,
            'explanation': 'bounded symbolic execution / bounded model checking of the MIR of the current tree; '
                           'UNSAT = holds for every value inside the stated bounds',
        }
        cov.update(self.extra)
        ev = {
            'property_id': self.prop,
            'tier': self.tier,
            'seed': self.seed,
            'level': level,
            'coverage': cov,
            'assumptions': self.assumptions,
            'wall_s': round(wall, 2),
            'violations': nviol,
            'exit_code': exit_code,
            'notes': self.notes,
        }
        os.makedirs(EVID, exist_ok=True)
        with open(os.path.join(EVID, self.prop + '.json'), 'w') as fh:
            json.dump(ev, fh, indent=1, default=str)
        print('%s tier=%s obligations=%d discharged=%d paths=%d queries=%d solver=%.1fs wall=%.1fs exit=%d'
              % (self.prop, self.tier, n_ob, n_dis, self.paths, self.queries, self.solver_seconds, wall, exit_code))
        return exit_code
