"""Path-wise symbolic execution of rustc MIR.

Exploration is stateless depth-first search: every path is (re-)executed from the harness entry with a
prefix of recorded branch decisions; at the frontier the solver decides which sides of a symbolic branch
are feasible. No program state is ever copied.
"""
import os, re, time, sys
import z3
from .mirparse import parse_mir, strip_generics, split_top, find_matching, Place
from .values import *


class Unsupported(Exception):
    """construct / callee outside the encoder: the run is inconclusive (exit 2), never a pass."""


class RustPanic(Exception):
    def __init__(self, msg, site=None):
        Exception.__init__(self, msg)
        self.msg = msg
        self.site = site


class Blocked(Exception):
    """a blocking operation that nothing in the sequential harness can complete."""

    def __init__(self, what, obj=None):
        Exception.__init__(self, what)
        self.what = what
        self.obj = obj


class BoundHit(Exception):
    pass


class PathAbort(Exception):
    """assumption infeasible on this path"""


class Inconclusive(Exception):
    pass


# --------------------------------------------------------------------------------------- program

STD_ENUMS = {
    'Option': ['None', 'Some'],
    'Result': ['Ok', 'Err'],
    'ControlFlow': ['Continue', 'Break'],
    'Ordering': ['Less', 'Equal', 'Greater'],        # discriminants -1,0,1 handled specially
    'Shutdown': ['Read', 'Write', 'Both'],
    'TryRecvError': ['Empty', 'Disconnected'],
    'SocketAddr': ['V4', 'V6'],
    'IpAddr': ['V4', 'V6'],
    'AtomicOrdering': ['Relaxed', 'Release', 'Acquire', 'AcqRel', 'SeqCst'],
}


def base_type_name(t):
    """'std::sync::MutexGuard<'_, X>' -> 'MutexGuard' ; '&mut Foo<T>' -> 'Foo' ; '[u8; 4]' -> '[array]'"""
    t = t.strip()
    while True:
        if t.startswith('&mut '):
            t = t[5:].strip()
        elif t.startswith('&'):
            t = t[1:].strip()
            if t.startswith("'"):
                t = t.split(' ', 1)[1] if ' ' in t else t
        elif t.startswith('dyn '):
            t = t[4:].strip()
        elif t.startswith('mut '):
            t = t[4:].strip()
        else:
            break
    if t.startswith('['):
        return '[array]' if ';' in t else '[slice]'
    if t.startswith('('):
        return '()' if t == '()' else '(tuple)'
    if t.startswith('{closure@'):
        return t
    if t.startswith('<'):
        return t
    s = strip_generics(t)
    s = s.split(' + ')[0].strip()
    return s.split('::')[-1]


class ImplInfo:
    def __init__(self, trait, trait_args, self_ty, text):
        self.trait = trait
        self.trait_args = trait_args
        self.self_ty = self_ty
        self.text = text


class Program:
    def __init__(self, mir_texts, src_root):
        """mir_texts: list of (crate_name, text) ; src_root: dict crate_name -> source directory"""
        self.fns = {}
        self.allocs = {}
        self.alloc_static = {}
        self.src_root = src_root
        self.crate_of = {}
        for crate, text in mir_texts:
            mod = parse_mir(text)
            for n, f in mod.functions.items():
                key = n if crate == 'tiny_http' else crate + '::' + n
                f.crate = crate
                self.fns[key] = f
            for a, b in mod.allocs.items():
                self.allocs[(crate, a)] = b
            for s, a in mod.alloc_static.items():
                self.alloc_static[(crate, s)] = a
        self._src_cache = {}
        self.impls = {}          # (crate, impl tag) -> ImplInfo
        self.inherent = {}       # (SelfTy, method) -> [fn]
        self.traitm = {}         # (Trait, SelfTy, method) -> [fn]
        self.free = {}           # name -> [fn]
        self.closures = {}       # closure type string -> fn
        self.enums = dict((k, list(v)) for k, v in STD_ENUMS.items())
        self.enum_of_variant_fn = {}
        self._index()

    # ---- source access
    def _src(self, crate, path):
        key = (crate, path)
        if key not in self._src_cache:
            p = os.path.join(self.src_root[crate], path)
            with open(p, encoding='utf-8') as fh:
                self._src_cache[key] = fh.read().split('\n')
        return self._src_cache[key]

    def span_text(self, crate, path, l1, c1, l2, c2):
        lines = self._src(crate, path)
        if l1 == l2:
            return lines[l1 - 1][c1 - 1:c2 - 1]
        out = [lines[l1 - 1][c1 - 1:]]
        for l in range(l1, l2 - 1):
            out.append(lines[l])
        out.append(lines[l2 - 1][:c2 - 1])
        return '\n'.join(out)

    def _parse_impl_header(self, text):
        t = re.sub(r'//[^\n]*', '', text)
        t = ' '.join(t.split())
        assert t.startswith('impl'), t
        t = t[4:].strip()
        if t.startswith('<'):
            j = find_matching(t, 0)
            t = t[j + 1:].strip()
        # cut where clause
        w = _find_top_word(t, ' where ')
        if w is not None:
            t = t[:w]
        if t.endswith(' where'):
            t = t[:-6]
        f = _find_top_word(t, ' for ')
        if f is not None:
            trait = t[:f].strip()
            selfty = t[f + 5:].strip()
            targs = ''
            if '<' in trait:
                k = trait.index('<')
                targs = trait[k + 1:find_matching(trait, k)]
            return ImplInfo(base_type_name(trait), targs, base_type_name(selfty), t)
        return ImplInfo(None, '', base_type_name(t), t)

    def _index(self):
        re_impl = re.compile(r'<impl at ([^:>]+):(\d+):(\d+): (\d+):(\d+)>')
        for name, f in self.fns.items():
            crate = f.crate
            if f.kind != 'fn':
                continue
            m = re_impl.search(name)
            if '{closure#' in name or '{closure@' in name and False:
                # closure body: first arg type names the closure
                if f.args:
                    t = f.args[0][1]
                    ct = t.lstrip('&').strip()
                    if ct.startswith('mut '):
                        ct = ct[4:]
                    if ct.startswith('{closure@'):
                        self.closures[ct] = f
                continue
            if m:
                tag = m.group(0)
                key = (crate, tag)
                if key not in self.impls:
                    try:
                        txt = self.span_text(crate, m.group(1), int(m.group(2)), int(m.group(3)), int(m.group(4)), int(m.group(5)))
                        if txt.lstrip().startswith('impl'):
                            self.impls[key] = self._parse_impl_header(txt)
                        else:
                            # #[derive(Trait)]: the span is the trait name; the type is the next item
                            lines = self._src(crate, m.group(1))
                            ty = None
                            for l in lines[int(m.group(2)) - 1:int(m.group(2)) + 40]:
                                mm = re.search(r'\b(?:struct|enum|union)\s+([A-Za-z_][A-Za-z0-9_]*)', re.sub(r'//.*', '', l))
                                if mm:
                                    ty = mm.group(1)
                                    break
                            if ty is None:
                                raise ValueError('derive target not found')
                            self.impls[key] = ImplInfo(txt.strip().split('::')[-1], '', ty, 'derive ' + txt)
                    except Exception as e:
                        raise Unsupported('cannot read impl header for %s: %s' % (name, e))
                info = self.impls[key]
                method = name[name.index(tag) + len(tag):].lstrip(':')
                method = strip_generics(method)
                if '::' in method:
                    continue
                f.impl = info
                if info.trait is None:
                    self.inherent.setdefault((info.self_ty, method), []).append(f)
                else:
                    self.traitm.setdefault((info.trait, info.self_ty, method), []).append(f)
            else:
                # free function or enum/struct constructor fn
                short = strip_generics(name).split('::')
                self.free.setdefault(short[-1], []).append(f)
                if len(short) >= 2:
                    self.free.setdefault('::'.join(short[-2:]), []).append(f)
        # enums from source
        for crate, root in self.src_root.items():
            for dirpath, dirs, files in os.walk(root):
                for fn in files:
                    if fn.endswith('.rs'):
                        self._scan_enums(open(os.path.join(dirpath, fn), encoding='utf-8').read())

    def _scan_enums(self, text):
        text = re.sub(r'//[^\n]*', '', text)
        for m in re.finditer(r'\benum\s+([A-Za-z_][A-Za-z0-9_]*)\s*(<[^{]*?>)?\s*(where[^{]*)?\{', text):
            name = m.group(1)
            j = find_matching(text, m.end() - 1)
            body = text[m.end():j]
            variants = []
            for part in split_top(body):
                part = part.strip()
                # strip attributes
                while part.startswith('#['):
                    k = find_matching(part, 1)
                    part = part[k + 1:].strip()
                mm = re.match(r'^([A-Za-z_][A-Za-z0-9_]*)', part)
                if mm:
                    variants.append(mm.group(1))
            if variants and name not in STD_ENUMS:
                self.enums[name] = variants

    def struct_field_names(self, name, crate='tiny_http'):
        """declaration order of the named fields of a struct of the crate (MIR field indices follow it)"""
        root = self.src_root[crate]
        for dirpath, dirs, files in os.walk(root):
            for fn in sorted(files):
                if not fn.endswith('.rs'):
                    continue
                text = re.sub(r'//[^\n]*', '', open(os.path.join(dirpath, fn), encoding='utf-8').read())
                m = re.search(r'\bstruct\s+' + re.escape(name) + r'\s*(<[^{;]*?>)?\s*(where[^{;]*)?\{', text)
                if not m:
                    continue
                j = find_matching(text, m.end() - 1)
                out = []
                for part in split_top(text[m.end():j]):
                    part = part.strip()
                    while part.startswith('#['):
                        k = find_matching(part, 1)
                        part = part[k + 1:].strip()
                    mm = re.match(r'^(?:pub(?:\([^)]*\))?\s+)?([A-Za-z_][A-Za-z0-9_]*)\s*:', part)
                    if mm:
                        out.append(mm.group(1))
                return out
        raise Unsupported('struct %s not found in the source' % name)

    def variant_index(self, enum, variant):
        vs = self.enums.get(enum)
        if vs is None:
            raise Unsupported('unknown enum %s (variant %s)' % (enum, variant))
        if enum == 'Ordering':
            return {'Less': -1, 'Equal': 0, 'Greater': 1}[variant]
        try:
            return vs.index(variant)
        except ValueError:
            raise Unsupported('unknown variant %s::%s' % (enum, variant))

    def enum_with_variant(self, variant):
        c = [e for e, vs in self.enums.items() if variant in vs]
        return c


def _find_top_word(t, w):
    depth = 0
    i = 0
    while i < len(t):
        c = t[i]
        if c in '<([':
            depth += 1
        elif c in ')]':
            depth -= 1
        elif c == '>' and not (i > 0 and t[i - 1] in '-='):
            depth -= 1
        elif depth == 0 and t.startswith(w, i):
            return i
        i += 1
    return None


# --------------------------------------------------------------------------------------- exploration

class PathResult:
    def __init__(self):
        self.pc = []
        self.outcome = None
        self.decisions = []
        self.events = []
        self.status = 'ok'     # ok | panic | blocked | bound | abort
        self.info = None
        self.steps = 0


class Explorer:
    def __init__(self, timeout_ms=20000, seed=0, max_paths=100000, logic=None):
        self.solver = z3.SolverFor(logic) if logic else z3.Solver()
        self.solver.set('timeout', timeout_ms)
        self.timeout_ms = timeout_ms
        try:
            self.solver.set('random_seed', seed)
        except Exception:
            pass
        self.seed = seed
        self.max_paths = max_paths
        self.n_checks = 0
        self.n_unknown = 0
        self.solver_time = 0.0
        self.queries = []          # (label, verdict, seconds)
        self.paths = []
        self.level = 0
        self.nocheck = False

    def check(self, *assumptions):
        t0 = time.time()
        r = self.solver.check(*assumptions)
        dt = time.time() - t0
        self.solver_time += dt
        self.n_checks += 1
        if r == z3.unknown:
            self.n_unknown += 1
        if dt > 3 and os.environ.get('VERIF_SLOW'):
            print('SLOW CHECK %.1fs %s: %s' % (dt, r, str(assumptions)[:600]), flush=True)
            if os.environ.get('VERIF_SLOW') == 'dump':
                open('/var/tmp/slow_%d.smt2' % self.n_checks, 'w').write(self.solver.to_smt2())
        return r

    def explore(self, harness, on_path=None, fuel=200000, pending=None, split_at=None, budget=None):
        """harness(ctx) -> outcome. Stateless DFS over branch decisions.
        pending: initial list of decision prefixes (default: the root).
        split_at: stop as soon as that many prefixes are pending and return them (breadth-first phase used to
        distribute subtrees over worker processes)."""
        results = []
        pending = [[]] if pending is None else list(pending)
        t_start = time.time()
        budget_s = float(os.environ.get('VERIF_TASK_SECONDS', '12')) if budget is not None else None
        while pending:
            if budget_s is not None and results and time.time() - t_start > budget_s:
                break
            if split_at is not None and len(pending) >= split_at:
                break
            if budget is not None and len(results) >= budget:
                break
            if len(results) >= self.max_paths:
                raise Inconclusive('path bound %d exceeded' % self.max_paths)
            prefix = pending.pop(0) if split_at is not None else pending.pop()
            ctx = Ctx(self, prefix, fuel)
            self.solver.reset()
            res = PathResult()
            try:
                res.outcome = harness(ctx)
            except RustPanic as p:
                res.status = 'panic'
                res.info = p
            except Blocked as b:
                res.status = 'blocked'
                res.info = b
            except BoundHit as b:
                res.status = 'bound'
                res.info = b
            except PathAbort:
                res.status = 'abort'
            for fn_ in ctx.data.get('cleanups', []):
                try:
                    fn_()
                except Exception:
                    pass
            res.pc = ctx.pc
            res.decisions = ctx.decisions
            res.events = ctx.events
            res.steps = ctx.steps
            res.ctx = ctx
            for alt in ctx.alternatives:
                pending.append(alt)
            if res.status != 'abort':
                results.append(res)
                if on_path:
                    on_path(res, ctx)
        self.paths = results
        self.pending = pending
        return results


def uses_arrays(exprs):
    seen = set()
    todo = list(exprs)
    n = 0
    while todo:
        e = todo.pop()
        i = e.get_id()
        if i in seen:
            continue
        seen.add(i)
        n += 1
        if n > 200000:
            return True
        if z3.is_quantifier(e) or e.sort().kind() == z3.Z3_ARRAY_SORT:
            return True
        todo.extend(e.children())
    return False


class Ctx:
    def __init__(self, ex, prefix, fuel):
        self.ex = ex
        self.prefix = prefix
        self.decisions = []
        self.alternatives = []
        self.pc = []
        self.events = []
        self.nfresh = 0
        self.fuel = fuel
        self.steps = 0
        self.data = {}
        self.violations = []
        self.notes = []
        self.name_prefix = ''

    # -- variables
    def fresh(self, name, sort):
        self.nfresh += 1
        return z3.Const('%s%s!%d' % (self.name_prefix, name, self.nfresh), sort)

    def fresh_bv(self, name, w=64):
        return self.fresh(name, z3.BitVecSort(w))

    def fresh_bool(self, name):
        return self.fresh(name, z3.BoolSort())

    def fresh_arr(self, name):
        return self.fresh(name, ARR)

    # -- constraints
    def add(self, c):
        c = z3.simplify(c) if not isinstance(c, bool) else z3.BoolVal(c)
        if z3.is_true(c):
            return
        self.pc.append(c)
        self.ex.solver.add(c)

    def assume(self, c):
        self.add(c)
        if z3.is_false(z3.simplify(c)):
            raise PathAbort()

    def assume_checked(self, c):
        self.add(c)
        if self.ex.check() == z3.unsat:
            raise PathAbort()

    def feasible(self, c=None):
        r = self.ex.check(c) if c is not None else self.ex.check()
        return r != z3.unsat

    def branch(self, cond):
        """returns python bool; forks when both sides are feasible."""
        if isinstance(cond, bool):
            return cond
        cond = z3.simplify(cond)
        if z3.is_true(cond):
            return True
        if z3.is_false(cond):
            return False
        k = len(self.decisions)
        if k < len(self.prefix):
            # replay: every symbolic branch call consumes one recorded entry, so the replay is exact.
            # entry: 1/0 = forked decision (constraint added) ; 3/2 = outcome implied by the path condition
            d = self.prefix[k]
            self.decisions.append(d)
            if d in (0, 1):
                c = cond if d == 1 else z3.Not(cond)
                self.add(c)
                tr = self.data.get('trace')
                if tr is not None:
                    tr.append(('br', cond, d == 1))
            return bool(d & 1)
        # frontier
        if self.ex.nocheck:
            t_ok = f_ok = True
        else:
            rt = self.ex.check(cond)
            rf = self.ex.check(z3.Not(cond))
            t_ok = rt != z3.unsat
            f_ok = rf != z3.unsat
        if t_ok and f_ok:
            self.alternatives.append(self.decisions + [0])
            self.decisions.append(1)
            self.add(cond)
            tr = self.data.get('trace')
            if tr is not None:
                tr.append(('br', cond, True))
            return True
        if t_ok:
            self.decisions.append(3)
            return True
        if f_ok:
            self.decisions.append(2)
            return False
        raise PathAbort()

    def choose(self, n, label='choice'):
        """nondeterministic choice among n alternatives (harness / model nondeterminism)."""
        for i in range(n - 1):
            b = self.fresh_bool(label)
            if self.branch(b):
                return i
        return n - 1

    def tick(self, n=1):
        self.steps += n
        if self.steps > self.fuel:
            raise BoundHit('fuel exhausted')

    def event(self, *e):
        self.events.append(e)

    # -- property checking on the current path
    def check_always(self, prop, label, replay=None):
        """prop must hold on this path for all values: check pc /\ not prop."""
        t0 = time.time()
        prop = z3.simplify(prop) if not isinstance(prop, bool) else z3.BoolVal(prop)
        if z3.is_true(prop):
            self.ex.queries.append((label, 'unsat', 0.0))
            return True
        # solver ladder: z3 incremental (short cap) -> cvc5 with integer encoding of the bit-vectors -> z3 QF_BV tactic
        self.ex.solver.set('timeout', min(self.ex.timeout_ms, int(os.environ.get('VERIF_Z3_FIRST_MS', '8000'))))
        r = self.ex.check(z3.Not(prop))
        self.ex.solver.set('timeout', self.ex.timeout_ms)
        m = None
        if r == z3.unknown and not uses_arrays(self.pc + [prop]):
            from .smtlib import cvc5_check
            # the per-query cap of the harness is meant for z3's incremental mode; the fall-back solvers get what they need
            # (a loaded machine made cvc5 miss a 4 s cap once, and the run ended inconclusive on the unchanged tree)
            v, m2, _ = cvc5_check(self.pc + [z3.Not(prop)], timeout_s=max(self.ex.timeout_ms / 1000.0, 90.0))
            self.ex.second_solver_queries = getattr(self.ex, 'second_solver_queries', 0) + 1
            if v == 'unsat':
                r = z3.unsat
            elif v == 'sat' and m2 is not None:
                r = z3.sat
                m = m2
            else:
                for attempt, seed2 in enumerate((0, 7)):
                    s2 = z3.SolverFor('QF_BV')
                    s2.set('timeout', max(self.ex.timeout_ms, 240000))
                    try:
                        s2.set('random_seed', seed2)
                    except Exception:
                        pass
                    s2.add(*self.pc)
                    s2.add(z3.Not(prop))
                    r = s2.check()
                    if r == z3.sat:
                        m = s2.model()
                    if r != z3.unknown:
                        break
        elif r == z3.unknown:
            self.ex.solver.set('timeout', self.ex.timeout_ms)
            r = self.ex.check(z3.Not(prop))
        dt = time.time() - t0
        if r == z3.unsat:
            self.ex.queries.append((label, 'unsat', dt))
            return True
        if r == z3.unknown:
            self.ex.queries.append((label, 'unknown', dt))
            raise Inconclusive('solver unknown on ' + label)
        if m is None:
            m = self.ex.solver.model()
        self.ex.queries.append((label, 'sat', dt))
        self.violations.append((label, m, replay))
        return False

    def model(self, *extra):
        r = self.ex.check(*extra)
        if r == z3.sat:
            return self.ex.solver.model()
        return None


# --------------------------------------------------------------------------------------- interpreter

class Frame:
    __slots__ = ('fn', 'locals')

    def __init__(self, fn):
        self.fn = fn
        self.locals = {}


def copy_val(v):
    if isinstance(v, Struct):
        return Struct(v.ty, [copy_val(f) for f in v.fields])
    if isinstance(v, Enum):
        return Enum(v.ty, v.variant, v.idx, [copy_val(f) for f in v.fields])
    return v


class Interp:
    def __init__(self, prog, ctx, models, overrides=None):
        self.prog = prog
        self.ctx = ctx
        self.models = models          # dict name -> python function
        self.overrides = overrides or {}   # full/short fn name -> python function(interp, args) replacing a crate fn
        self.depth = 0
        self.max_depth = 0
        self.callstack = []
        self.trace = False
        self.encoded = set()
        self.const_cache = {}

    # ---- places
    def locate(self, frame, place):
        root = frame.locals.get(place.local)
        if root is None:
            root = frame.locals[place.local] = Cell(None, '_%d' % place.local)
        path = ()
        for pe in place.proj:
            k = pe[0]
            if k == 'deref':
                v = self.read(root, path)
                root, path = self.deref_target(v)
            elif k == 'field':
                path = path + (('f', pe[1]),)
            elif k == 'downcast':
                path = path + (('d', pe[1]),)
            elif k == 'index':
                iv = frame.locals[pe[1]].v
                c = conc(iv)
                if c is None:
                    path = path + (('si', iv),)
                else:
                    path = path + (('i', c),)
            elif k == 'cindex':
                if pe[3]:
                    raise Unsupported('from-end constant index')
                path = path + (('i', pe[1]),)
            else:
                raise Unsupported('projection ' + k)
        return root, path

    def deref_target(self, v):
        if isinstance(v, Ref):
            return v.root, v.path
        if isinstance(v, BoxObj):
            return v.cell, ()
        if isinstance(v, Opaque) and hasattr(v, 'deref_cell'):
            return v.deref_cell, ()
        if isinstance(v, (Slice, ListSlice)):
            # a reference to an unsized value is the fat value itself
            return Cell(v), ()
        raise Unsupported('deref of %r' % (v,))

    def read(self, root, path):
        if isinstance(root, Cell):
            v = root.v
        else:
            v = root
        for st in path:
            v = self._step_get(v, st)
        return v

    def _step_get(self, v, st):
        k = st[0]
        if k == 'f':
            if isinstance(v, (Struct, Enum)):
                try:
                    return v.fields[st[1]]
                except IndexError:
                    raise Unsupported('field %d of %r' % (st[1], v))
            if isinstance(v, Opaque) and hasattr(v, 'fields'):
                return v.fields[st[1]]
            raise Unsupported('field access on %r' % (v,))
        if k == 'd':
            if isinstance(v, Enum):
                if v.variant != st[1]:
                    raise Unsupported('downcast %s of %r' % (st[1], v))
                return v
            raise Unsupported('downcast on %r' % (v,))
        if k == 'i':
            if isinstance(v, VecObj):
                return v.items[st[1]]
            if isinstance(v, ListSlice):
                return v.vec.items[v.start + st[1]]
            if isinstance(v, Struct):
                return v.fields[st[1]]
            if isinstance(v, Slice):
                return z3.simplify(v.at(st[1]))
            if isinstance(v, Buf):
                return z3.simplify(z3.Select(v.arr, bv(st[1])))
            raise Unsupported('index on %r' % (v,))
        if k == 'si':
            if isinstance(v, Slice):
                return z3.simplify(v.at(st[1]))
            if isinstance(v, Buf):
                return z3.simplify(z3.Select(v.arr, st[1]))
            raise Unsupported('symbolic index on %r' % (v,))
        raise Unsupported('path step %r' % (st,))

    def write(self, root, path, val):
        if not path:
            if isinstance(root, Cell):
                root.v = val
                return
            raise Unsupported('write to non-cell root')
        parent = self.read(root, path[:-1])
        st = path[-1]
        k = st[0]
        if k == 'f':
            if isinstance(parent, (Struct, Enum)):
                while len(parent.fields) <= st[1]:
                    parent.fields.append(None)
                parent.fields[st[1]] = val
                return
            if parent is None:
                # writing a field of an uninitialised aggregate (field-wise initialisation)
                s = Struct('?', [])
                while len(s.fields) <= st[1]:
                    s.fields.append(None)
                s.fields[st[1]] = val
                self.write(root, path[:-1], s)
                return
        if k == 'd':
            self.write(root, path[:-1], val)
            return
        if k == 'i':
            if isinstance(parent, VecObj):
                parent.items[st[1]] = val
                return
            if isinstance(parent, ListSlice):
                parent.vec.items[parent.start + st[1]] = val
                return
            if isinstance(parent, Struct):
                parent.fields[st[1]] = val
                return
            if isinstance(parent, Slice):
                parent.buf.arr = z3.Store(parent.buf.arr, parent.off + bv(st[1]), val)
                return
        if k == 'si' and isinstance(parent, Slice):
            parent.buf.arr = z3.Store(parent.buf.arr, parent.off + st[1], val)
            return
        raise Unsupported('write through %r into %r' % (st, parent))

    def read_place(self, frame, place):
        root, path = self.locate(frame, place)
        return self.read(root, path)

    def write_place(self, frame, place, val):
        root, path = self.locate(frame, place)
        self.write(root, path, val)

    # ---- operands
    def eval_operand(self, frame, op):
        k = op[0]
        if k == 'copy':
            return copy_val(self.read_place(frame, op[1]))
        if k == 'move':
            return self.read_place(frame, op[1])
        if k == 'const':
            return self.eval_const(frame, op)
        raise Unsupported('operand %r' % (op,))

    def eval_const(self, frame, op):
        kind, payload, ty = op[1], op[2], op[3]
        if kind == 'bool':
            return z3.BoolVal(payload)
        if kind == 'int':
            return bv(payload, INT_WIDTH[ty])
        if kind == 'char':
            return bv(payload, 32)
        if kind == 'unit':
            return unit()
        if kind == 'str':
            return whole(Buf.from_bytes(payload), True)
        if kind == 'bytes':
            return whole(Buf.from_bytes(payload), False)
        if kind == 'float':
            try:
                f = float(payload)
            except ValueError:
                raise Unsupported('float const ' + payload)
            return F32('fin', z3.BitVecVal(int(round(f * 1000)), 32))
        if kind == 'zst':
            t = payload
            if t.startswith('{closure@'):
                return Struct(t, [])
            if t.startswith('fn('):
                # fn item:  fn(A) -> B {path}
                m = re.search(r'\{([^{}]*)\}\s*$', t)
                if m:
                    return FnItem(m.group(1))
            return Struct(base_type_name(t), [])
        if kind == 'alloc':
            data = self.prog.allocs.get((frame.fn.crate, payload))
            if data is None:
                raise Unsupported('alloc ' + payload)
            ty = ty.strip()
            if ty.startswith('&'):
                inner = ty[1:].strip()
                if inner in INT_WIDTH:
                    w = INT_WIDTH[inner]
                    val = int.from_bytes(data[:w // 8], 'little')
                    return Ref(Cell(bv(val, w), payload), ())
            raise Unsupported('alloc const of type ' + ty)
        if kind == 'path':
            return self.eval_path_const(frame, payload)
        raise Unsupported('const %r' % (op,))

    def eval_path_const(self, frame, p):
        p = p.strip()
        # promoted constants
        if 'promoted[' in p:
            key = self._find_promoted(frame, p)
            f = self.prog.fns[key]
            return self.call_mir(f, [])
        sp = strip_generics(p)
        segs = sp.split('::')
        # unit-like enum variant / struct:  Option::<T>::None , ReadError::WrongRequestLine, RangeFull
        if len(segs) >= 2 and segs[-2] in self.prog.enums and segs[-1] in self.prog.enums[segs[-2]]:
            return FnItem(p) if False else self._enum_or_ctor(segs[-2], segs[-1], p)
        m = re.match(r'^Result::<.*>::Err\(\(\)\)$', p)
        if m:
            return Err(unit())
        if segs[-1] in ('RangeFull', 'Empty', 'Sink', 'GlobalLogger') or sp in ('std::io::Empty',):
            return Struct(segs[-1], [])
        if sp == 'log::STATIC_MAX_LEVEL':
            return bv(5, 64)
        mm = re.match(r'^(?:std|core)::(u8|u16|u32|u64|usize|i8|i16|i32|i64|isize)::(MAX|MIN)$', sp) or \
            re.match(r'^(u8|u16|u32|u64|usize|i8|i16|i32|i64|isize)::(MAX|MIN)$', sp)
        if mm:
            t, which = mm.group(1), mm.group(2)
            w = INT_WIDTH[t]
            if t in SIGNED:
                val = (1 << (w - 1)) - 1 if which == 'MAX' else (1 << (w - 1))
            else:
                val = (1 << w) - 1 if which == 'MAX' else 0
            return bv(val, w)
        ec = getattr(self, 'extra_consts', None)
        if ec and len(segs) >= 2 and '::'.join(segs[-2:]) in ec:
            return ec['::'.join(segs[-2:])]()
        # named constant with a MIR body
        last = sp.split('::')[-1]
        for key in (sp, frame.fn.crate + '::' + sp, last, frame.fn.crate + '::' + last):
            f = self.prog.fns.get(key)
            if f is not None and f.kind in ('const', 'static'):
                if key not in self.const_cache:
                    self.const_cache[key] = self.call_mir(f, [])
                return copy_val(self.const_cache[key])
        # function item
        return FnItem(p)

    def _enum_or_ctor(self, enum, variant, text):
        # a path constant naming a variant: either a unit variant value or a tuple-variant constructor fn
        cands = self.prog.free.get(enum + '::' + variant)
        if cands:
            return FnItem(text)
        if enum == 'Option' and variant == 'Some':
            return FnItem('Option::Some')
        return Enum(enum, variant, self.prog.variant_index(enum, variant), [])

    def _find_promoted(self, frame, p):
        m = re.search(r'promoted\[(\d+)\]', p)
        idx = m.group(1)
        # the promoted belongs to the current function
        base = frame.fn.name
        key = '%s::promoted[%s]' % (base, idx)
        if key in self.prog.fns:
            return key
        if frame.fn.crate != 'tiny_http':
            key2 = frame.fn.crate + '::' + key
            if key2 in self.prog.fns:
                return key2
        # fall back: match by the suffix of the textual path
        sp = strip_generics(p.split('::promoted')[0]).split('::')[-1]
        for k in self.prog.fns:
            if k.endswith('::promoted[%s]' % idx) and strip_generics(k.split('::promoted')[0]).split('::')[-1] == sp:
                return k
        raise Unsupported('promoted ' + p)

    # ---- types (only what signedness / widths need)
    def place_type(self, frame, place):
        t = frame.fn.locals.get(place.local)
        for pe in place.proj:
            if pe[0] == 'field':
                t = pe[2]
            elif pe[0] == 'deref' and t:
                t = t.strip()
                if t.startswith('&mut '):
                    t = t[5:]
                elif t.startswith('&'):
                    t = t[1:].strip()
                else:
                    t = None
            elif pe[0] == 'downcast':
                pass
            else:
                t = None
        return t

    def operand_type(self, frame, op):
        if op[0] in ('copy', 'move'):
            return self.place_type(frame, op[1])
        if op[0] == 'const':
            return op[3]
        return None

    # ---- rvalues
    def eval_rvalue(self, frame, rv):
        k = rv[0]
        if k == 'use':
            return self.eval_operand(frame, rv[1])
        if k == 'ref':
            root, path = self.locate(frame, rv[2])
            # reborrow of a slice/str place:  &(*_x) where *_x is an unsized slice value
            return self.make_ref(root, path, rv[1])
        if k == 'discriminant':
            v = self.read_place(frame, rv[1])
            if isinstance(v, Enum):
                return bv(v.idx & 0xffffffffffffffff, 64)
            if isinstance(v, Opaque) and hasattr(v, 'discr'):
                return bv(v.discr, 64)
            raise Unsupported('discriminant of %r' % (v,))
        if k == 'binop':
            a = self.eval_operand(frame, rv[2])
            b = self.eval_operand(frame, rv[3])
            ta = self.operand_type(frame, rv[2])
            return self.binop(rv[1], a, b, ta)
        if k == 'unop':
            a = self.eval_operand(frame, rv[2])
            if rv[1] == 'Not':
                if z3.is_bool(a):
                    return z3.simplify(z3.Not(a))
                return z3.simplify(~a)
            if rv[1] == 'Neg':
                return z3.simplify(-a)
            if rv[1] == 'PtrMetadata':
                if isinstance(a, Slice):
                    return a.len
                if isinstance(a, ListSlice):
                    return bv(a.end - a.start)
                if isinstance(a, Ref):
                    t = self.read(a.root, a.path)
                    if isinstance(t, Slice):
                        return t.len
                    if isinstance(t, Buf):
                        return t.len
                    if isinstance(t, Struct) and t.ty == '[array]':
                        return bv(len(t.fields))
                raise Unsupported('PtrMetadata of %r' % (a,))
            raise Unsupported('unop ' + rv[1])
        if k == 'cast':
            return self.cast(frame, rv)
        if k == 'tuple':
            return Struct('(tuple)', [self.eval_operand(frame, o) for o in rv[1]]) if rv[1] else unit()
        if k == 'array':
            items = [self.eval_operand(frame, o) for o in rv[1]]
            return Struct('[array]', items)
        if k == 'repeat':
            e = self.eval_operand(frame, rv[1])
            cnt = rv[2].strip()
            m = re.match(r'^(?:const )?(\d+)(?:_usize)?$', cnt)
            if not m:
                raise Unsupported('array repeat with a non-literal count: ' + cnt)
            n = int(m.group(1))
            if z3.is_bv(e) and e.size() == 8:
                return Buf(z3.K(BV64, e), n, max(n, 1), 'array')
            if n > 64:
                raise Unsupported('array repeat of %d non-byte elements' % n)
            return Struct('[array]', [copy_val(e) for _ in range(n)])
        if k == 'closure':
            return Struct(rv[1], [self.eval_operand(frame, o) for _, o in rv[2]])
        if k == 'adt':
            return self.make_adt(frame, rv)
        if k == 'len':
            v = self.read_place(frame, rv[1])
            if isinstance(v, Slice):
                return v.len
            if isinstance(v, ListSlice):
                return bv(v.end - v.start)
            if isinstance(v, Struct):
                return bv(len(v.fields))
            raise Unsupported('Len of %r' % (v,))
        raise Unsupported('rvalue %r' % (rv,))

    def make_ref(self, root, path, mut):
        # a reference to an unsized value (slice / str / list slice) is the fat value itself
        try:
            v = self.read(root, path)
        except Unsupported:
            v = None
        if isinstance(v, (Slice, ListSlice)):
            return v
        return Ref(root, path, mut)

    def make_adt(self, frame, rv):
        path, shape, fields = rv[1], rv[2], rv[3]
        vals = [self.eval_operand(frame, o) for _, o in fields]
        sp = strip_generics(path)
        segs = sp.split('::')
        # enum variant?
        if len(segs) >= 2 and segs[-2] in self.prog.enums and segs[-1] in self.prog.enums[segs[-2]]:
            en = segs[-2]
            return Enum(en, segs[-1], self.prog.variant_index(en, segs[-1]), vals)
        if len(segs) == 1 and shape == 'unit':
            # bare variant name of an imported enum, e.g. `ConnectionAborted`
            c = self.prog.enum_with_variant(segs[0])
            if len(c) == 1:
                return Enum(c[0], segs[0], self.prog.variant_index(c[0], segs[0]), [])
            if segs[0] in ERRORKINDS:
                return Enum('ErrorKind', segs[0], ERRORKINDS.index(segs[0]), [])
        if segs[-2:-1] == ['Ordering'] or (len(segs) >= 2 and segs[-2] == 'Ordering'):
            pass
        if sp.startswith('std::sync::atomic::Ordering::'):
            return Enum('AtomicOrdering', segs[-1], STD_ENUMS['AtomicOrdering'].index(segs[-1]), [])
        if sp.startswith('std::cmp::Ordering::') or sp.startswith('core::cmp::Ordering::'):
            return Enum('Ordering', segs[-1], self.prog.variant_index('Ordering', segs[-1]), [])
        if len(segs) >= 2 and segs[-2] == 'ErrorKind':
            return Enum('ErrorKind', segs[-1], ERRORKINDS.index(segs[-1]), [])
        if len(segs) >= 2 and segs[-2] == 'Shutdown':
            return Enum('Shutdown', segs[-1], STD_ENUMS['Shutdown'].index(segs[-1]), [])
        return Struct(segs[-1], vals)

    def binop(self, op, a, b, ta=None):
        signed = ta in SIGNED if ta else False
        if isinstance(a, F32) or isinstance(b, F32):
            return self.f32_binop(op, a, b)
        if z3.is_bool(a) and z3.is_bool(b):
            if op == 'Eq':
                return z3.simplify(a == b)
            if op == 'Ne':
                return z3.simplify(a != b)
            if op == 'BitAnd':
                return z3.simplify(z3.And(a, b))
            if op == 'BitOr':
                return z3.simplify(z3.Or(a, b))
            if op == 'BitXor':
                return z3.simplify(z3.Xor(a, b))
            raise Unsupported('bool binop ' + op)
        if not (z3.is_bv(a) and z3.is_bv(b)):
            raise Unsupported('binop %s on %r, %r' % (op, a, b))
        if a.size() != b.size() and op not in ('Shl', 'Shr', 'ShlUnchecked', 'ShrUnchecked'):
            raise Unsupported('binop width mismatch')
        S = z3.simplify
        if op in ('Eq', 'Ne') and conc(b) == 0 and a.decl().kind() in (z3.Z3_OP_BUDIV, z3.Z3_OP_BUDIV_I) and conc(a.arg(1)) not in (None, 0):
            # (x / c) == 0  <=>  x < c      (keeps dividers out of the formula)
            r = z3.ULT(a.arg(0), a.arg(1))
            return S(r) if op == 'Eq' else S(z3.Not(r))
        if op == 'Eq': return S(a == b)
        if op == 'Ne': return S(a != b)
        if op == 'Lt': return S(a < b) if signed else S(z3.ULT(a, b))
        if op == 'Le': return S(a <= b) if signed else S(z3.ULE(a, b))
        if op == 'Gt': return S(a > b) if signed else S(z3.UGT(a, b))
        if op == 'Ge': return S(a >= b) if signed else S(z3.UGE(a, b))
        if op in ('Add', 'AddUnchecked'): return S(a + b)
        if op in ('Sub', 'SubUnchecked'): return S(a - b)
        if op in ('Mul', 'MulUnchecked'): return S(a * b)
        if op == 'BitAnd': return S(a & b)
        if op == 'BitOr': return S(a | b)
        if op == 'BitXor': return S(a ^ b)
        if op == 'Div':
            return S(a / b) if signed else S(z3.UDiv(a, b))
        if op == 'Rem':
            return S(z3.SRem(a, b)) if signed else S(z3.URem(a, b))
        if op in ('Shl', 'ShlUnchecked'):
            return S(a << z3.ZeroExt(a.size() - b.size(), b) if b.size() < a.size() else a << z3.Extract(a.size() - 1, 0, b))
        if op in ('Shr', 'ShrUnchecked'):
            bb = z3.ZeroExt(a.size() - b.size(), b) if b.size() < a.size() else z3.Extract(a.size() - 1, 0, b)
            return S(a >> bb) if signed else S(z3.LShR(a, bb))
        if op == 'AddWithOverflow':
            r = S(a + b)
            if signed:
                ov = S(z3.Or(z3.And(a >= 0, b >= 0, r < 0), z3.And(a < 0, b < 0, r >= 0)))
            else:
                ov = S(z3.ULT(r, a))
            return Struct('(tuple)', [r, ov])
        if op == 'SubWithOverflow':
            r = S(a - b)
            if signed:
                ov = S(z3.Or(z3.And(a >= 0, b < 0, r < 0), z3.And(a < 0, b >= 0, r >= 0)))
            else:
                ov = S(z3.ULT(a, b))
            return Struct('(tuple)', [r, ov])
        if op == 'MulWithOverflow':
            w = a.size()
            if signed:
                wide = z3.SignExt(w, a) * z3.SignExt(w, b)
                r = z3.Extract(w - 1, 0, wide)
                ov = S(wide != z3.SignExt(w, r))
            else:
                wide = z3.ZeroExt(w, a) * z3.ZeroExt(w, b)
                r = z3.Extract(w - 1, 0, wide)
                ov = S(z3.Extract(2 * w - 1, w, wide) != 0)
            return Struct('(tuple)', [S(r), ov])
        if op == 'Cmp':
            raise Unsupported('three-way Cmp')
        raise Unsupported('binop ' + op)

    def f32_binop(self, op, a, b):
        if not (isinstance(a, F32) and isinstance(b, F32)):
            raise Unsupported('mixed float binop')
        if op not in ('Lt', 'Le', 'Gt', 'Ge', 'Eq', 'Ne'):
            raise Unsupported('float arithmetic ' + op)
        if a.cls == 'nan' or b.cls == 'nan':
            return z3.BoolVal(op == 'Ne')
        rank = {'ninf': -1, 'fin': 0, 'inf': 1}
        if a.cls != 'fin' or b.cls != 'fin':
            x, y = rank[a.cls], rank[b.cls]
            if a.cls == b.cls == 'fin':
                pass
            return z3.BoolVal({'Lt': x < y, 'Le': x <= y, 'Gt': x > y, 'Ge': x >= y, 'Eq': x == y, 'Ne': x != y}[op])
        x, y = a.milli, b.milli
        return z3.simplify({'Lt': x < y, 'Le': x <= y, 'Gt': x > y, 'Ge': x >= y, 'Eq': x == y, 'Ne': x != y}[op])

    def cast(self, frame, rv):
        v = self.eval_operand(frame, rv[1])
        ty, kind = rv[2], rv[3]
        if kind.startswith('PointerCoercion'):
            # unsizing:  &[T; N] -> &[T] ,  Box<T> -> Box<dyn Tr> ,  fn item -> fn ptr
            if isinstance(v, Ref):
                t = self.read(v.root, v.path)
                if isinstance(t, Buf):
                    return whole(t, False)          # &[u8; N] -> &[u8]
                if isinstance(t, Struct) and t.ty == '[array]':
                    holder = VecObj(t.fields)
                    # keep aliasing: the array cell now holds the list object
                    return ListSlice(holder)
            return v
        if kind == 'IntToInt':
            w = INT_WIDTH.get(ty.strip())
            if w is None:
                raise Unsupported('IntToInt to ' + ty)
            st = self.operand_type(frame, rv[1])
            if z3.is_bool(v):
                v = z3.If(v, bv(1, 8), bv(0, 8))
                st = 'u8'
            cw = v.size()
            if w == cw:
                return v
            if w < cw:
                return z3.simplify(z3.Extract(w - 1, 0, v))
            if st in SIGNED:
                return z3.simplify(z3.SignExt(w - cw, v))
            return z3.simplify(z3.ZeroExt(w - cw, v))
        if kind == 'Transmute':
            return v
        raise Unsupported('cast kind ' + kind)

    # ---- execution
    def call_mir(self, fn, args):
        ctx = self.ctx
        self.encoded.add(fn.name)
        frame = Frame(fn)
        for (idx, ty), a in zip(fn.args, args):
            frame.locals[idx] = Cell(a, '_%d' % idx)
        if len(args) != len(fn.args):
            raise Unsupported('arity mismatch calling %s: %d vs %d' % (fn.name, len(args), len(fn.args)))
        self.depth += 1
        if self.depth > self.max_depth:
            self.max_depth = self.depth
        if self.depth > 200:
            raise BoundHit('call depth')
        self.callstack.append(fn.name)
        try:
            bb = 0
            while True:
                ctx.tick()
                stmts, term, cleanup, raw = fn.blocks[bb]
                for st in stmts:
                    k = st[0]
                    if k == 'assign':
                        if st[2][0] == 'unparsed':
                            raise Unsupported('unparsed rvalue in %s: %s' % (fn.name, st[2][1]))
                        val = self.eval_rvalue(frame, st[2])
                        self.write_place(frame, st[1], val)
                    elif k == 'nop':
                        pass
                    else:
                        raise Unsupported('statement in %s bb%d: %r' % (fn.name, bb, st))
                t = term[0]
                if t == 'goto':
                    bb = term[1]
                elif t == 'return':
                    r = frame.locals.get(0)
                    return r.v if r is not None and r.v is not None else unit()
                elif t == 'switch':
                    v = self.eval_operand(frame, term[1])
                    bb = self._switch(v, term[2], term[3])
                elif t == 'call':
                    dest, callee, aops, edges = term[1], term[2], term[3], term[4]
                    avals = [self.eval_operand(frame, o) for o in aops]
                    if self.trace:
                        print('  ' * self.depth + 'call', callee[:100])
                    res = self.call(frame, callee, avals)
                    if 'return' not in edges:
                        raise Unsupported('diverging call returned: ' + callee)
                    if dest is not None:
                        self.write_place(frame, dest, res)
                    bb = edges['return']
                elif t == 'drop':
                    root, path = self.locate(frame, term[1])
                    v = self.read(root, path)
                    self.drop_value(v)
                    bb = term[2]['return']
                elif t == 'assert':
                    c = self.eval_operand(frame, term[1])
                    ok = c if term[2] else z3.Not(c)
                    if ctx.branch(ok):
                        bb = term[4]['success']
                    else:
                        raise RustPanic('assert failed: ' + term[3], (fn.name, bb))
                elif t == 'unreachable':
                    raise Unsupported('reached `unreachable` in %s bb%d' % (fn.name, bb))
                elif t == 'resume':
                    raise Unsupported('resume')
                else:
                    raise Unsupported('terminator %r in %s' % (term, fn.name))
        finally:
            self.depth -= 1
            self.callstack.pop()

    def _switch(self, v, targets, otherwise):
        ctx = self.ctx
        if z3.is_bool(v):
            for val, bb in targets:
                cond = z3.Not(v) if val == 0 else v
                if ctx.branch(cond):
                    return bb
            if otherwise is None:
                raise Unsupported('switch fell through')
            return otherwise
        c = conc(v)
        w = v.size()
        if c is not None:
            for val, bb in targets:
                if (val % (1 << w)) == c:
                    return bb
            if otherwise is None:
                raise Unsupported('switch fell through')
            return otherwise
        for val, bb in targets:
            if ctx.branch(v == bv(val % (1 << w), w)):
                return bb
        if otherwise is None:
            raise Unsupported('switch fell through')
        return otherwise

    # ---- calls
    def parse_callee(self, callee):
        """-> dict(kind='path'|'qualified', self_ty, trait, method, key, text)"""
        c = callee.strip()
        if c.startswith('<'):
            j = find_matching(c, 0)
            inner = c[1:j]
            rest = c[j + 1:]
            assert rest.startswith('::')
            method = strip_generics(rest[2:])
            a = _find_top_word(inner, ' as ')
            if a is not None:
                st = inner[:a].strip()
                tr = inner[a + 4:].strip()
            else:
                st = inner.strip()
                tr = None
            return {'kind': 'qualified', 'self_text': st, 'self_ty': base_type_name(st),
                    'trait': base_type_name(tr) if tr else None, 'trait_text': tr, 'method': method, 'text': c}
        # `path::<impl T>::method` names an inherent method of T
        def _impl(m):
            t = m.group(1).strip()
            if t.startswith('['):
                return 'slice'
            return base_type_name(t)
        c2 = re.sub(r'<impl ([^<>]*(?:<[^<>]*>)?[^<>]*)>', _impl, c)
        sp = strip_generics(c2)
        segs = [s for s in sp.split('::') if s]
        return {'kind': 'path', 'segs': segs, 'method': segs[-1], 'text': c,
                'self_ty': segs[-2] if len(segs) >= 2 else None}

    def call(self, frame, callee, args):
        info = self.parse_callee(callee)
        info['caller'] = frame.fn if frame else None
        return self.dispatch(info, args)

    def _override(self, fn):
        ov = self.overrides
        if not ov:
            return None
        if fn.name in ov:
            return ov[fn.name]
        short = getattr(fn, 'short', None)
        if short is None:
            impl = getattr(fn, 'impl', None)
            m = strip_generics(fn.name).split('::')[-1]
            if impl is not None:
                short = (impl.self_ty + '::' + m) if impl.trait is None else ('<%s as %s>::%s' % (impl.self_ty, impl.trait, m))
            else:
                short = m
            fn.short = short
        return ov.get(short)

    def run_fn(self, fn, args):
        ov = self._override(fn)
        if ov is not None:
            return ov(self, args, fn)
        return self.call_mir(fn, args)

    def runtime_type(self, v):
        """type name used for dynamic dispatch of a receiver value (after following references)."""
        seen = 0
        while isinstance(v, Ref) and seen < 8:
            v = self.read(v.root, v.path)
            seen += 1
        if isinstance(v, (Struct, Enum)):
            return v.ty, v
        if isinstance(v, BoxObj):
            return 'Box', v
        if isinstance(v, Opaque):
            return v.kind, v
        if isinstance(v, Buf):
            return v.kind, v
        if isinstance(v, Slice):
            return 'str' if v.is_str else '[slice]', v
        if isinstance(v, VecObj):
            return 'Vec', v
        if isinstance(v, ListSlice):
            return '[slice]', v
        return type(v).__name__, v

    def dispatch(self, info, args):
        prog = self.prog
        method = info['method']
        if info['kind'] == 'path':
            segs = info['segs']
            if len(segs) >= 2:
                key2 = segs[-2] + '::' + segs[-1]
                cands = prog.inherent.get((segs[-2], segs[-1]))
                if cands:
                    return self.run_fn(self._pick(cands, info), args)
                cands = prog.free.get(key2)
                if cands:
                    return self.run_fn(self._pick(cands, info), args)
                m = self.models.get(key2)
                if m:
                    return m(self, args, info)
                # trait method called by path on a crate type, e.g. ClientConnection::next
                for (tr, st, me), fs in prog.traitm.items():
                    if st == segs[-2] and me == segs[-1]:
                        return self.run_fn(fs[0], args)
            cands = prog.free.get(segs[-1])
            if cands and len(segs) == 1:
                return self.run_fn(self._pick(cands, info), args)
            m = self.models.get(segs[-1]) if len(segs) == 1 else None
            if m:
                return m(self, args, info)
            full = '::'.join(segs)
            m = self.models.get(full)
            if m:
                return m(self, args, info)
            if len(segs) >= 2 and segs[-2] in prog.enums and segs[-1] in prog.enums[segs[-2]]:
                # tuple-variant constructor used as a function value (e.g. `.map(Some)`)
                return Enum(segs[-2], segs[-1], prog.variant_index(segs[-2], segs[-1]), list(args))
            raise Unsupported('no model for callee ' + info['text'])
        # qualified
        st, tr = info['self_ty'], info['trait']
        if tr is None:
            cands = prog.inherent.get((st, method))
            if cands:
                return self.run_fn(cands[0], args)
        cands = prog.traitm.get((tr, st, method))
        if cands:
            return self.run_fn(self._pick_trait(cands, info, args), args)
        # generic / dyn receiver: dispatch on the run-time type of the first argument
        if args:
            rt, rv = self.runtime_type(args[0])
            if isinstance(rv, BoxObj):
                # Box<dyn Trait> / Box<T>: forward to the boxed value
                inner_rt, inner_v = self.runtime_type(rv.cell.v)
                cands = prog.traitm.get((tr, inner_rt, method))
                if cands:
                    first = args[0]
                    newfirst = Ref(rv.cell, (), True)
                    return self.run_fn(self._pick_trait(cands, info, args), [newfirst] + list(args[1:]))
            cands = prog.traitm.get((tr, rt, method))
            if cands:
                f = self._pick_trait(cands, info, args)
                return self.run_fn(f, [self._adapt_receiver(f, args[0])] + list(args[1:]))
        for key in ('<%s as %s>::%s' % (st, tr, method), '%s::%s' % (tr, method)):
            m = self.models.get(key)
            if m:
                return m(self, args, info)
        raise Unsupported('no model for callee ' + info['text'])

    def _adapt_receiver(self, f, a):
        """blanket impls (`impl Write for &mut W`, Box<W>) forward to W: hand the callee a single-level reference"""
        if not f.args:
            return a
        pty = f.args[0][1].strip()
        if not isinstance(a, Ref):
            return a
        cur = a
        n = 0
        while n < 8:
            t = self.read(cur.root, cur.path)
            if isinstance(t, Ref):
                cur = t
            elif isinstance(t, BoxObj):
                cur = Ref(t.cell, (), True)
            else:
                break
            n += 1
        if pty.startswith('&'):
            return cur
        return self.read(cur.root, cur.path)

    def _pick(self, cands, info):
        if len(cands) == 1:
            return cands[0]
        # prefer a function from the caller's module / crate
        caller = info.get('caller')
        if caller is not None:
            mod = caller.name.split('::')[0]
            same = [c for c in cands if c.name.startswith(mod + '::') and c.crate == caller.crate]
            if len(same) == 1:
                return same[0]
            samec = [c for c in cands if c.crate == caller.crate]
            if len(samec) == 1:
                return samec[0]
        names = sorted(set(c.name for c in cands))
        if len(names) == 1:
            return cands[0]
        raise Unsupported('ambiguous callee %s: %s' % (info['text'], names[:4]))

    def _pick_trait(self, cands, info, args):
        if len(cands) == 1:
            return cands[0]
        # disambiguate From<X> / PartialOrd<X> impls by the trait's generic argument
        tt = (info.get('trait_text') or '').replace(' ', '')
        targ = ''
        if '<' in tt:
            k = tt.index('<')
            targ = tt[k + 1:find_matching(tt, k)]
        exact = [c for c in cands if getattr(c, 'impl', None) is not None and c.impl.trait_args.replace(' ', '') == targ]
        if len(exact) == 1:
            return exact[0]
        if not exact and targ:
            # same last path segment, and both (or neither) name the unix flavour of a std::net type
            nrm = lambda t: (t.split('::')[-1], 'unix' in t)
            near = [c for c in cands if getattr(c, 'impl', None) is not None and nrm(c.impl.trait_args.replace(' ', '')) == nrm(targ)]
            if len(near) == 1:
                return near[0]
        pool = exact or cands
        # by run-time types of the arguments
        best = []
        for c in pool:
            ok = True
            for (idx, pty), a in zip(c.args, args):
                rt, _ = self.runtime_type(a)
                bt = base_type_name(pty)
                if rt in ('BitVecRef', 'BitVecNumRef', 'BoolRef'):
                    continue
                if bt != rt and not (bt == 'Error' and rt == 'IoError'):
                    ok = False
            if ok:
                best.append(c)
        if len(best) == 1:
            return best[0]
        raise Unsupported('ambiguous trait impl for ' + info['text'])

    def call_callable(self, f, args):
        """call a closure / fn item value with a python list of argument values."""
        if isinstance(f, Ref):
            target = self.read(f.root, f.path)
            if isinstance(target, (Struct, FnItem)) :
                if isinstance(target, Struct) and target.ty.startswith('{closure@'):
                    return self._call_closure(target, f, args)
                return self.call_callable(target, args)
        if isinstance(f, FnItem):
            info = self.parse_callee(f.name)
            info['caller'] = None
            return self.dispatch(info, args)
        if isinstance(f, Struct) and f.ty.startswith('{closure@'):
            return self._call_closure(f, None, args)
        if isinstance(f, BoxObj):
            return self.call_callable(f.cell.v, args)
        if isinstance(f, Opaque) and hasattr(f, 'call'):
            return f.call(self, args)
        raise Unsupported('call of %r' % (f,))

    def _call_closure(self, clo, ref, args):
        fn = self.prog.closures.get(clo.ty)
        if fn is None:
            raise Unsupported('closure body not found: ' + clo.ty)
        pty = fn.args[0][1].strip()
        if pty.startswith('&'):
            envarg = ref if ref is not None else Ref(Cell(clo), (), True)
        else:
            envarg = clo
        return self.run_fn(fn, [envarg] + list(args))

    # ---- drop glue
    def drop_value(self, v):
        if v is None:
            return
        if isinstance(v, (Struct, Enum)):
            cands = self.prog.traitm.get(('Drop', v.ty, 'drop'))
            if cands:
                cell = Cell(v)
                self.run_fn(cands[0], [Ref(cell, (), True)])
                v = cell.v
            for f in list(v.fields):
                self.drop_value(f)
            return
        if isinstance(v, BoxObj):
            self.drop_value(v.cell.v)
            return
        if isinstance(v, VecObj):
            for it in list(v.items):
                self.drop_value(it)
            return
        if isinstance(v, Opaque):
            d = getattr(v, 'on_drop', None)
            if d:
                d(self, v)
            return
        return


ERRORKINDS = ['NotFound', 'PermissionDenied', 'ConnectionRefused', 'ConnectionReset', 'HostUnreachable',
              'NetworkUnreachable', 'ConnectionAborted', 'NotConnected', 'AddrInUse', 'AddrNotAvailable',
              'NetworkDown', 'BrokenPipe', 'AlreadyExists', 'WouldBlock', 'NotADirectory', 'IsADirectory',
              'DirectoryNotEmpty', 'ReadOnlyFilesystem', 'FilesystemLoop', 'StaleNetworkFileHandle',
              'InvalidInput', 'InvalidData', 'TimedOut', 'WriteZero', 'StorageFull', 'NotSeekable',
              'QuotaExceeded', 'FileTooLarge', 'ResourceBusy', 'ExecutableFileBusy', 'Deadlock',
              'CrossesDevices', 'TooManyLinks', 'InvalidFilename', 'ArgumentListTooLong', 'Interrupted',
              'Unsupported', 'UnexpectedEof', 'OutOfMemory', 'InProgress', 'Other', 'Uncategorized']
