"""Harness-side helpers shared by the property modules."""
import time, traceback, os
import z3
from .values import *
from .interp import (Interp, Explorer, Unsupported, RustPanic, Blocked, BoundHit, Inconclusive, PathAbort, ERRORKINDS)
from .models import MODELS, as_slice, deref, io_error, DecStr
from .report import Violation


_WORK = None


class Summary:
    """plain-data summary of an exploration (picklable: it crosses process boundaries)"""

    def __init__(self):
        self.paths = 0
        self.status = {}
        self.labels = {}
        self.witnesses = set()
        self.violations = []      # (label, scenario, path status)
        self.encoded = set()
        self.n_checks = 0
        self.n_unknown = 0
        self.solver_time = 0.0
        self.error = None
        self.unhandled = []
        self.samples = []

    def merge(self, o):
        self.paths += o.paths
        for k, v in o.status.items():
            self.status[k] = self.status.get(k, 0) + v
        for k, d in o.labels.items():
            e = self.labels.setdefault(k, {'unsat': 0, 'sat': 0, 'unknown': 0, 'seconds': 0.0})
            for kk in e:
                e[kk] += d[kk]
        self.witnesses |= o.witnesses
        self.violations += o.violations
        self.encoded |= o.encoded
        self.n_checks += o.n_checks
        self.n_unknown += o.n_unknown
        self.solver_time += o.solver_time
        self.unhandled += o.unhandled
        self.samples += o.samples[:3]
        if o.error and not self.error:
            self.error = o.error


def _explore_into(summary, ex, harness, fuel, pending=None, split_at=None, dbg=None, name='', t0=0, budget=None):
    def on_path(res, ctx):
        summary.paths += 1
        for e in res.events:
            if e and e[0] == 'witness':
                summary.witnesses.add(e[1])
            elif e and e[0] == 'sample' and len(summary.samples) < 4:
                summary.samples.append(e[1])
        it = ctx.data.get('interp')
        if it is not None:
            summary.encoded.update(it.encoded)
        summary.status[res.status] = summary.status.get(res.status, 0) + 1
        if res.status in ('panic', 'blocked'):
            summary.unhandled.append('%s: %s' % (res.status, res.info))
        for (label, model, replay) in ctx.violations:
            sc = None
            try:
                sc = replay(model) if replay else None
            except Exception as e:
                sc = {'scenario_error': repr(e)}
            summary.violations.append((label, sc, res.status))
        if dbg and summary.paths % int(dbg) == 0:
            print('  [%s pid=%d] paths=%d checks=%d solver=%.1fs wall=%.1fs %s' % (name, os.getpid(), summary.paths, ex.n_checks,
                  ex.solver_time, time.time() - t0, summary.status), flush=True)
    try:
        ex.explore(harness, on_path=on_path, fuel=fuel, pending=pending, split_at=split_at, budget=budget)
    except z3.Z3Exception as e:
        summary.error = ('inconclusive', 'tool failure in the encoder: %s at %s' % (e, [l.strip() for l in traceback.format_exc().strip().split('\n') if 'File' in l][-6:]))
    except Unsupported as e:
        summary.error = ('unsupported', str(e))
    except Inconclusive as e:
        summary.error = ('inconclusive', str(e))
    except (AttributeError, TypeError, KeyError, IndexError, ValueError, AssertionError) as e:
        summary.error = ('inconclusive', 'tool failure in the encoder: %r at %s' % (e, [l.strip() for l in traceback.format_exc().strip().split('\n') if 'File' in l][-5:]))
    for (label, verdict, secs) in ex.queries:
        d = summary.labels.setdefault(label, {'unsat': 0, 'sat': 0, 'unknown': 0, 'seconds': 0.0})
        d[verdict] += 1
        d['seconds'] += secs
    ex.queries = []
    summary.n_checks = ex.n_checks
    summary.n_unknown = ex.n_unknown
    summary.solver_time = ex.solver_time


def _worker(prefix):
    sess, name, harness, fuel, max_paths, dbg, t0 = _WORK
    ex = Explorer(timeout_ms=sess.timeout_ms, seed=sess.seed, max_paths=max_paths, logic=os.environ.get('VERIF_LOGIC'))
    sm = Summary()
    _explore_into(sm, ex, harness, fuel, pending=[prefix], dbg=dbg, name=name, t0=t0, budget=int(os.environ.get('VERIF_BUDGET', '150')))
    sm.pending = list(getattr(ex, 'pending', []))
    return sm


class Session:
    def __init__(self, L, report, seed=0, timeout_ms=60000):
        self.L = L
        self.prog = L.prog
        self.report = report
        self.seed = seed
        self.timeout_ms = timeout_ms
        report.mir_hash = L.mir_hash
        self.last_violations = []

    def interp(self, ctx, overrides=None, models=None):
        it = Interp(self.prog, ctx, models or MODELS, overrides)
        ctx.data['interp'] = it
        return it

    def run(self, name, harness, witnesses=(), max_paths=50000, fuel=400000, bound=None, jobs=None):
        """Explore `harness(ctx)` over all its paths (in parallel over subtrees of the decision tree); every
        ctx.check_always inside the harness is an obligation instance. Returns the Summary (None if skipped)."""
        global _WORK
        rep = self.report
        only = os.environ.get('VERIF_ONLY')
        if only and only not in name:
            return None
        dbg = os.environ.get('VERIF_DEBUG')
        jobs = jobs or int(os.environ.get('VERIF_JOBS', '14'))
        t0 = time.time()
        ex = Explorer(timeout_ms=self.timeout_ms, seed=self.seed, max_paths=max_paths, logic=os.environ.get('VERIF_LOGIC'))
        sm = Summary()
        _explore_into(sm, ex, harness, fuel, split_at=(jobs if jobs > 1 else None), dbg=dbg, name=name, t0=t0)
        pend = getattr(ex, 'pending', [])
        if pend and not sm.error:
            import multiprocessing
            _WORK = (self, name, harness, fuel, max_paths, dbg, t0)
            mp = multiprocessing.get_context('fork')
            tasks = list(pend)
            active = []
            total = 0
            budget = float(os.environ.get('VERIF_HARNESS_SECONDS', '0') or 0)
            with mp.Pool(jobs) as pool:
                while tasks or active:
                    if budget and time.time() - t0 > budget:
                        # wall-clock budget of one harness (quick tier): what was found so far is reported, the rest is
                        # declared unexplored (inconclusive), never silently dropped
                        sm.error = ('inconclusive', 'exploration budget of %d s exhausted after %d paths (%d sub-trees unexplored)'
                                    % (budget, sm.paths, len(tasks) + len(active)))
                        break
                    while tasks and len(active) < jobs * 2:
                        active.append(pool.apply_async(_worker, (tasks.pop(),)))
                    done = [a for a in active if a.ready()]
                    if not done:
                        time.sleep(0.02)
                        continue
                    for a in done:
                        active.remove(a)
                        part = a.get()
                        sm.merge(part)
                        tasks.extend(part.pending)
                        if part.error:
                            tasks = []
                    if sm.paths > max_paths:
                        sm.error = ('inconclusive', 'path bound %d exceeded' % max_paths)
                        tasks = []
            _WORK = None
        dt = time.time() - t0
        rep.paths += sm.paths
        rep.queries += sm.n_checks
        rep.solver_seconds += sm.solver_time
        rep.functions.update(sm.encoded)
        for x in sm.samples:
            rep.sample(x)
        if sm.error:
            rep.inconc('%s: %s: %s' % (name, sm.error[0], sm.error[1]))
            rep.obligation(name, 'inconclusive', reason=sm.error[1])
            # violations found before the exploration stopped are still violations
            self.last_violations = [(label, sc, st, name) for (label, sc, st) in sm.violations]
            return None
        nb = sm.status.get('bound', 0)
        if nb:
            rep.inconc('%s: %d feasible path(s) hit the unrolling bound' % (name, nb))
        if sm.unhandled:
            rep.inconc('%s: %d path(s) ended in a panic/blocked state the harness did not classify, e.g. %s'
                       % (name, len(sm.unhandled), sm.unhandled[0][:300]))
        if sm.n_unknown:
            rep.notes.append('%s: %d feasibility checks returned unknown (treated as feasible)' % (name, sm.n_unknown))
        missing = [w for w in witnesses if w not in sm.witnesses]
        if missing:
            rep.inconc('%s: reachability witness missing (vacuity guard): %s' % (name, missing))
        for label, d in sorted(sm.labels.items()):
            if d['unknown']:
                rep.inconc('%s/%s: solver returned unknown' % (name, label))
            rep.obligation('%s/%s' % (name, label), 'sat' if d['sat'] else ('unknown' if d['unknown'] else 'unsat'),
                           instances=d['unsat'] + d['sat'] + d['unknown'], seconds=round(d['seconds'], 3), bound=bound)
        rep.obligation('%s/exploration' % name, 'holds' if not nb and not missing and not sm.unhandled else 'inconclusive',
                       paths=sm.paths, path_status=sm.status, smt_checks=sm.n_checks, seconds=round(dt, 2), bound=bound,
                       witnesses=sorted(sm.witnesses))
        self.last_violations = [(label, sc, st, name) for (label, sc, st) in sm.violations]
        return sm


# ------------------------------------------------------------------------------------------ value builders

def const_str(b, is_str=True):
    return whole(Buf.from_bytes(b), is_str)


def ascii_string(b):
    return Buf.from_bytes(b, 'AsciiString')


def sym_buf(ctx, name, n, kind='const', maxlen=None):
    """buffer of concrete length n with fresh symbolic bytes"""
    arr = ctx.fresh_arr(name)
    return Buf(arr, n, maxlen or n, kind)


def buf_from_exprs(bytes_exprs, kind='AsciiString'):
    arr = z3.K(BV64, bv(0, 8))
    for i, e in enumerate(bytes_exprs):
        if isinstance(e, int):
            e = bv(e, 8)
        arr = z3.Store(arr, bv(i), e)
    return Buf(arr, len(bytes_exprs), max(1, len(bytes_exprs)), kind)


def mk_header(name_bytes_exprs, value_bytes_exprs):
    """common::Header { field: HeaderField(AsciiString), value: AsciiString }"""
    return Struct('Header', [Struct('HeaderField', [buf_from_exprs(name_bytes_exprs)]), buf_from_exprs(value_bytes_exprs)])


def case_variant(ctx, word, label='case'):
    """the bytes of `word` with a symbolic letter case per alphabetic character"""
    out = []
    for ch in word:
        if (65 <= ch <= 90) or (97 <= ch <= 122):
            b = ctx.fresh_bool(label)
            lo = ch | 0x20
            out.append(z3.If(b, bv(lo, 8), bv(lo - 32, 8)))
        else:
            out.append(bv(ch, 8))
    return out


def model_bytes(m, exprs):
    out = []
    for e in exprs:
        v = m.eval(e, model_completion=True)
        out.append(v.as_long())
    return bytes(out)


def model_slice(m, s):
    n = m.eval(s.len, model_completion=True).as_long()
    o = m.eval(s.off, model_completion=True).as_long()
    n = min(n, 4096)
    return bytes(m.eval(z3.Select(s.buf.arr, bv(o + i)), model_completion=True).as_long() for i in range(n))


def is_tchar(c):
    """RFC 7230 tchar"""
    alnum = z3.Or(z3.And(z3.UGE(c, 0x30), z3.ULE(c, 0x39)), z3.And(z3.UGE(c, 0x41), z3.ULE(c, 0x5a)),
                  z3.And(z3.UGE(c, 0x61), z3.ULE(c, 0x7a)))
    sym = z3.Or(*[c == ord(x) for x in "!#$%&'*+-.^_`|~"])
    return z3.Or(alnum, sym)


def is_vchar(c):
    return z3.And(z3.UGE(c, 0x21), z3.ULE(c, 0x7e))


class SymBuilder:
    """Builds a byte string whose layout (optional pieces, piece lengths) is symbolic: one harness shape covers all
    layouts. The bytes live in a fresh array constrained position by position."""

    def __init__(self, ctx, name, maxlen):
        self.ctx = ctx
        self.arr = ctx.fresh_arr(name)
        self.pos = bv(0)
        self.maxlen = maxlen

    def const(self, b, present=None):
        """append constant bytes b (all or nothing when `present` is a Bool)"""
        for i, ch in enumerate(b):
            c = z3.Select(self.arr, self.pos + i) == ch
            self.ctx.add(c if present is None else z3.Implies(present, c))
        n = bv(len(b))
        self.pos = z3.simplify(self.pos + (n if present is None else z3.If(present, n, bv(0))))

    def sym(self, name, maxn, minn=0, pred=None, present=None):
        """append a piece of symbolic length in [minn, maxn]; returns (byte exprs list, length expr)"""
        ctx = self.ctx
        n = ctx.fresh_bv(name + '_len')
        ctx.add(z3.And(z3.UGE(n, minn), z3.ULE(n, maxn)))
        if present is not None:
            n_eff = z3.If(present, n, bv(0))
        else:
            n_eff = n
        bs = []
        for i in range(maxn):
            b = z3.Select(self.arr, self.pos + i)
            bs.append(b)
            if pred is not None:
                ctx.add(z3.Implies(z3.ULT(bv(i), n_eff), pred(b)))
        start = self.pos
        self.pos = z3.simplify(self.pos + n_eff)
        return bs, n_eff, start

    def byte(self, pred=None, present=None):
        b = z3.Select(self.arr, self.pos)
        if pred is not None:
            c = pred(b)
            self.ctx.add(c if present is None else z3.Implies(present, c))
        self.pos = z3.simplify(self.pos + (bv(1) if present is None else z3.If(present, bv(1), bv(0))))
        return b

    def finish(self, kind='AsciiString'):
        self.ctx.add(z3.ULE(self.pos, self.maxlen))
        return Buf(self.arr, self.pos, self.maxlen, kind)


def concretize(ctx, e):
    """if the path condition determines e uniquely, return that constant (else e). Two solver calls."""
    c = conc(e)
    if c is not None:
        return bv(c, e.size()) if z3.is_bv(e) else e
    m = ctx.model()
    if m is None:
        return e
    v = m.eval(e, model_completion=True)
    if ctx.ex.check(e != v) == z3.unsat:
        return v
    return e
