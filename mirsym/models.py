"""Environment models: std / dependency functions called by the tiny-http MIR (DESIGN.md §2.4).

Every model is a python function (interp, args, info) -> value. Models may fork the path through
interp.ctx.branch and introduce fresh symbols constrained by their documented semantics.
"""
import re
import z3
from .values import *
from .interp import Unsupported, RustPanic, Blocked, ERRORKINDS, base_type_name, copy_val
from .mirparse import find_matching, split_top, strip_generics

MODELS = {}


def model(*names):
    def deco(f):
        for n in names:
            MODELS[n] = f
        return f
    return deco


def deref(it, v):
    """follow references to the underlying value"""
    n = 0
    while isinstance(v, Ref):
        v = it.read(v.root, v.path)
        n += 1
        if n > 16:
            raise Unsupported('reference chain')
    return v


def as_slice(it, v):
    """view a value as a byte Slice (&str/&[u8]/String/Vec<u8>/AsciiString/...)"""
    v = deref(it, v)
    if isinstance(v, Slice):
        return v
    if isinstance(v, Buf):
        return whole(v, v.kind in ('String', 'AsciiString'))
    if isinstance(v, Struct) and len(v.fields) == 1:
        return as_slice(it, v.fields[0])
    if isinstance(v, Opaque) and v.kind == 'DecStr':
        c = conc(v.val)
        if c is not None:
            return whole(Buf.from_bytes(str(c).encode(), 'String'), True)
        raise SymbolicText(v)
    raise Unsupported('not a byte string: %r' % (v,))


class SymbolicText(Unsupported):
    """a decimal rendering of a symbolic integer was used where its bytes are needed"""

    def __init__(self, v):
        Unsupported.__init__(self, 'bytes of the decimal rendering of a symbolic integer are needed')
        self.value = v


def is_symtext(it, v):
    v = deref(it, v)
    return isinstance(v, Opaque) and v.kind == 'DecStr' and conc(v.val) is None


def generic_args(text, method):
    """generic args of the last path segment `method::<...>`"""
    k = text.rfind(method + '::<')
    if k < 0:
        return []
    j = k + len(method) + 2
    e = find_matching(text, j)
    return split_top(text[j + 1:e])


# ------------------------------------------------------------------------------ string helpers

def is_ws(c):
    return z3.Or(c == 0x20, z3.And(z3.UGE(c, 0x09), z3.ULE(c, 0x0d)))


def lower(c):
    return z3.If(z3.And(z3.UGE(c, 65), z3.ULE(c, 90)), c + 32, c)


def s_eq_const(s, b):
    cs = [s.len == len(b)]
    for i, ch in enumerate(b):
        cs.append(s.at(i) == ch)
    return z3.And(*cs)


def s_eq(a, b, fold=False):
    ca, cb = a.concrete(), b.concrete()
    if cb is not None and not fold:
        return s_eq_const(a, cb)
    if ca is not None and not fold:
        return s_eq_const(b, ca)
    if cb is not None or ca is not None:
        const, sym = (cb, a) if cb is not None else (ca, b)
        cs = [sym.len == len(const)]
        for i, ch in enumerate(const):
            lc = ch + 32 if 65 <= ch <= 90 else ch
            cs.append(lower(sym.at(i)) == lc)
        return z3.And(*cs)
    m = min(a.maxlen, b.maxlen)
    cs = [a.len == b.len, z3.ULE(a.len, m)]
    for i in range(m):
        x, y = a.at(i), b.at(i)
        if fold:
            x, y = lower(x), lower(y)
        cs.append(z3.Implies(z3.ULT(bv(i), a.len), x == y))
    return z3.And(*cs)


def all_in(s, pred, lo=None, hi=None):
    """forall i in [lo,hi) (defaults 0..len): pred(s[i])   -- bounded expansion over maxlen"""
    cs = []
    lo = bv(0) if lo is None else lo
    hi = s.len if hi is None else hi
    for i in range(s.maxlen):
        cs.append(z3.Implies(z3.And(z3.ULE(lo, bv(i)), z3.ULT(bv(i), hi)), pred(s.at(i))))
    return z3.And(*cs) if cs else z3.BoolVal(True)


def exists_in(s, pred, lo=None, hi=None):
    cs = []
    lo = bv(0) if lo is None else lo
    hi = s.len if hi is None else hi
    for i in range(s.maxlen):
        cs.append(z3.And(z3.ULE(lo, bv(i)), z3.ULT(bv(i), hi), pred(s.at(i))))
    return z3.Or(*cs) if cs else z3.BoolVal(False)


def sub(s, a, n):
    return Slice(s.buf, z3.simplify(s.off + a), z3.simplify(n), s.is_str)


def find_byte(it, s, pred, start=None, label='idx'):
    """first index i >= start with pred(s[i]); forks on found / not found. returns z3 index or None"""
    ctx = it.ctx
    start = bv(0) if start is None else start
    co, cl, cs = conc(s.off), conc(s.len), conc(start)
    if co is not None and cl is not None and cs is not None and cl <= 4096:
        # concrete layout: walk the positions; symbolic bytes fork (the solver prunes impossible sides)
        for i in range(cs, cl):
            if ctx.branch(pred(s.at(i))):
                return bv(i)
        return None
    found = z3.simplify(exists_in(s, pred, start))
    if ctx.branch(found):
        i = ctx.fresh_bv(label)
        ctx.add(z3.And(z3.ULE(start, i), z3.ULT(i, s.len), pred(s.at(i)),
                       all_in(s, lambda ch: z3.Not(pred(ch)), start, i)))
        return i
    return None


def new_buf_from(it, s, kind, f=None):
    """owned copy of slice s (optionally mapped through f) as a fresh Buf"""
    c = s.concrete()
    if c is not None:
        if f is not None:
            c = bytes(conc(z3.simplify(f(bv(x, 8)))) for x in c)
        b = Buf.from_bytes(c, kind)
        return b
    i = z3.BitVec('i!', 64)
    src = z3.Select(s.buf.arr, s.off + i)
    arr = z3.Lambda([i], f(src) if f is not None else src)
    return Buf(arr, s.len, s.maxlen, kind)


# ------------------------------------------------------------------------------ Option / Result / Try

def is_enum(v, ty, var=None):
    return isinstance(v, Enum) and v.ty == ty and (var is None or v.variant == var)


@model('Option::unwrap', 'Option::expect')
def _opt_unwrap(it, a, info):
    v = a[0]
    if is_enum(v, 'Option', 'Some'):
        return v.fields[0]
    raise RustPanic('called `Option::unwrap()` on a `None` value', tuple(it.callstack))


@model('Result::unwrap', 'Result::expect')
def _res_unwrap(it, a, info):
    v = a[0]
    if is_enum(v, 'Result', 'Ok'):
        return v.fields[0]
    raise RustPanic('called `Result::unwrap()` on an `Err` value: %r' % (v.fields[:1],), tuple(it.callstack))


@model('Option::is_some')
def _(it, a, info):
    return z3.BoolVal(deref(it, a[0]).variant == 'Some')


@model('Option::is_none')
def _(it, a, info):
    return z3.BoolVal(deref(it, a[0]).variant == 'None')


@model('Result::is_ok')
def _(it, a, info):
    return z3.BoolVal(deref(it, a[0]).variant == 'Ok')


@model('Result::is_err')
def _(it, a, info):
    return z3.BoolVal(deref(it, a[0]).variant == 'Err')


@model('Option::map')
def _(it, a, info):
    if a[0].variant == 'Some':
        return Some(it.call_callable(a[1], [a[0].fields[0]]))
    return NONE()


@model('Option::and_then')
def _(it, a, info):
    if a[0].variant == 'Some':
        return it.call_callable(a[1], [a[0].fields[0]])
    return NONE()


@model('Option::map_or')
def _(it, a, info):
    if a[0].variant == 'Some':
        return it.call_callable(a[2], [a[0].fields[0]])
    return a[1]


@model('Option::unwrap_or')
def _(it, a, info):
    return a[0].fields[0] if a[0].variant == 'Some' else a[1]


@model('Option::unwrap_or_else')
def _(it, a, info):
    return a[0].fields[0] if a[0].variant == 'Some' else it.call_callable(a[1], [])


@model('Option::ok_or')
def _(it, a, info):
    return Ok(a[0].fields[0]) if a[0].variant == 'Some' else Err(a[1])


@model('Option::ok_or_else')
def _(it, a, info):
    return Ok(a[0].fields[0]) if a[0].variant == 'Some' else Err(it.call_callable(a[1], []))


@model('Option::as_ref', 'Option::as_mut')
def _(it, a, info):
    r = a[0]
    v = deref(it, r)
    if v.variant == 'Some':
        return Some(Ref(r.root, r.path + (('d', 'Some'), ('f', 0)), info['method'] == 'as_mut'))
    return NONE()


@model('Option::as_deref')
def _(it, a, info):
    r = a[0]
    v = deref(it, r)
    if v.variant == 'Some':
        return Some(as_slice(it, v.fields[0]))
    return NONE()


@model('Option::take')
def _(it, a, info):
    r = a[0]
    v = deref(it, r)
    it.write(r.root, r.path, NONE())
    return v


@model('Option::filter')
def _(it, a, info):
    if a[0].variant == 'Some':
        c = Cell(a[0].fields[0])
        if it.ctx.branch(it.call_callable(a[1], [Ref(c)])):
            return a[0]
    return NONE()


@model('Option::or')
def _(it, a, info):
    return a[0] if a[0].variant == 'Some' else a[1]


@model('Result::ok')
def _(it, a, info):
    if a[0].variant == 'Ok':
        return Some(a[0].fields[0])
    it.drop_value(a[0].fields[0])        # the error value is dropped (it may own resources, e.g. SendError(reader))
    return NONE()


@model('Result::err')
def _(it, a, info):
    if a[0].variant == 'Err':
        return Some(a[0].fields[0])
    it.drop_value(a[0].fields[0])
    return NONE()


@model('Result::map')
def _(it, a, info):
    if a[0].variant == 'Ok':
        return Ok(it.call_callable(a[1], [a[0].fields[0]]))
    return a[0]


@model('Result::map_err')
def _(it, a, info):
    if a[0].variant == 'Err':
        return Err(it.call_callable(a[1], [a[0].fields[0]]))
    return a[0]


@model('Result::or')
def _(it, a, info):
    return a[0] if a[0].variant == 'Ok' else a[1]


@model('Result::or_else')
def _(it, a, info):
    return a[0] if a[0].variant == 'Ok' else it.call_callable(a[1], [a[0].fields[0]])


@model('Result::and_then')
def _(it, a, info):
    return it.call_callable(a[1], [a[0].fields[0]]) if a[0].variant == 'Ok' else a[0]


@model('Result::unwrap_or')
def _(it, a, info):
    return a[0].fields[0] if a[0].variant == 'Ok' else a[1]


@model('Result::as_ref')
def _(it, a, info):
    r = a[0]
    v = deref(it, r)
    return Enum('Result', v.variant, v.idx, [Ref(r.root, r.path + (('d', v.variant), ('f', 0)))])


@model('Try::branch')
def _(it, a, info):
    v = a[0]
    if is_enum(v, 'Result'):
        if v.variant == 'Ok':
            return Enum('ControlFlow', 'Continue', 0, [v.fields[0]])
        return Enum('ControlFlow', 'Break', 1, [Err(v.fields[0])])
    if is_enum(v, 'Option'):
        if v.variant == 'Some':
            return Enum('ControlFlow', 'Continue', 0, [v.fields[0]])
        return Enum('ControlFlow', 'Break', 1, [NONE()])
    raise Unsupported('Try::branch on %r' % (v,))


@model('FromResidual::from_residual')
def _(it, a, info):
    v = a[0]
    if is_enum(v, 'Result', 'Err'):
        e = v.fields[0]
        st = info.get('self_text', '')
        # error conversion through From: only identity and the crate's own From impls
        m = re.match(r'^Result<.*,\s*(.*)>$', st, re.S)
        if m:
            target = base_type_name(split_top(st[st.index('<') + 1:-1])[-1])
            rt, _ = it.runtime_type(e)
            if target not in (rt, 'Error', '()') and not (target == 'Error' and rt == 'IoError'):
                cands = [fs for (tr, sty, me), fs in it.prog.traitm.items() if tr == 'From' and sty == target and me == 'from']
                for fs in cands:
                    for f in fs:
                        if base_type_name(f.args[0][1]) in (rt, 'Error' if rt == 'IoError' else rt):
                            return Err(it.run_fn(f, [e]))
                if rt == 'IoError' and target == 'Box':
                    return Err(BoxObj(e))
                if cands:
                    raise Unsupported('from_residual conversion %s -> %s' % (rt, target))
        return Err(e)
    if is_enum(v, 'Option', 'None'):
        return NONE()
    raise Unsupported('from_residual on %r' % (v,))


# ------------------------------------------------------------------------------ mem / Box / Arc / Clone / Deref

@model('mem::swap')
def _(it, a, info):
    x = it.read(a[0].root, a[0].path)
    y = it.read(a[1].root, a[1].path)
    it.write(a[0].root, a[0].path, y)
    it.write(a[1].root, a[1].path, x)
    return unit()


@model('mem::replace')
def _(it, a, info):
    x = it.read(a[0].root, a[0].path)
    it.write(a[0].root, a[0].path, a[1])
    return x


@model('mem::take')
def _(it, a, info):
    raise Unsupported('mem::take')


@model('mem::drop', 'drop')
def _(it, a, info):
    it.drop_value(a[0])
    return unit()


@model('mem::forget')
def _(it, a, info):
    return unit()


@model('Box::new')
def _(it, a, info):
    return BoxObj(a[0])


@model('must_use', 'hint::must_use')
def _(it, a, info):
    return a[0]


class ArcObj(Opaque):
    def __init__(self, v):
        Opaque.__init__(self, 'Arc')
        self.cell = Cell(v)
        self.count = 1

    @property
    def deref_cell(self):
        return self.cell

    def on_drop(self, it, me):
        self.count -= 1
        if self.count == 0:
            it.drop_value(self.cell.v)

    def __repr__(self):
        return '<Arc #%d>' % self.count


@model('Arc::new')
def _(it, a, info):
    return ArcObj(a[0])


@model('Deref::deref', 'DerefMut::deref_mut', 'Borrow::borrow', 'AsRef::as_ref', 'AsMut::as_mut')
def _deref(it, a, info):
    r = a[0]
    v = deref(it, r)
    if is_symtext(it, v):
        return v
    if isinstance(v, Buf):
        return whole(v, v.kind in ('String', 'AsciiString'))
    if isinstance(v, Slice):
        return v
    if isinstance(v, VecObj):
        return ListSlice(v)
    if isinstance(v, ListSlice):
        return v
    if isinstance(v, ArcObj):
        return Ref(v.cell, ())
    if isinstance(v, BoxObj):
        return Ref(v.cell, (), True)
    if isinstance(v, Opaque) and hasattr(v, 'deref_ref'):
        return v.deref_ref(it)
    if isinstance(v, Struct) and len(v.fields) == 1 and isinstance(v.fields[0], (Buf, Slice)):
        return as_slice(it, v.fields[0])
    raise Unsupported('Deref on %r (%s)' % (v, info['text']))


@model('Clone::clone')
def _clone(it, a, info):
    v = deref(it, a[0])
    return clone_val(it, v)


def clone_val(it, v):
    if isinstance(v, Buf):
        return Buf(v.arr, v.len, v.maxlen, v.kind, v.tag)
    if isinstance(v, ArcObj):
        v.count += 1
        return v
    if isinstance(v, Struct):
        cands = it.prog.traitm.get(('Clone', v.ty, 'clone'))
        if cands:
            return it.run_fn(cands[0], [Ref(Cell(v))])
        return Struct(v.ty, [clone_val(it, f) for f in v.fields])
    if isinstance(v, Enum):
        cands = it.prog.traitm.get(('Clone', v.ty, 'clone'))
        if cands:
            return it.run_fn(cands[0], [Ref(Cell(v))])
        return Enum(v.ty, v.variant, v.idx, [clone_val(it, f) for f in v.fields])
    if isinstance(v, VecObj):
        return VecObj([clone_val(it, x) for x in v.items])
    if isinstance(v, Opaque) and hasattr(v, 'clone'):
        return v.clone(it)
    if isinstance(v, (Slice, ListSlice, Ref, FnItem, F32)) or z3.is_expr(v):
        return v
    raise Unsupported('clone of %r' % (v,))


@model('Into::into', 'From::from')
def _into(it, a, info):
    v = a[0]
    if is_symtext(it, v):
        return deref(it, v)
    tt = info.get('trait_text') or ''
    st = info.get('self_text') or ''
    rt, rv = it.runtime_type(v) if not isinstance(v, Ref) else (None, None)
    if info['method'] == 'into':
        m = re.match(r'^Into<(.*)>$', tt, re.S)
        target = base_type_name(m.group(1)) if m else None
    else:
        target = info['self_ty']
    if target is None:
        raise Unsupported('Into without target: ' + info['text'])
    if rt == target:
        return v
    # crate From impls for the target
    for (tr, sty, me), fs in it.prog.traitm.items():
        if tr == 'From' and sty == target and me == 'from':
            for f in fs:
                pt = base_type_name(f.args[0][1])
                if pt == rt or (isinstance(v, Struct) and v.ty == '(tuple)' and pt == '(tuple)') \
                        or (rt == 'IoError' and pt == 'Error') or (z3.is_bv(v) and pt in INT_WIDTH and INT_WIDTH[pt] == v.size()):
                    return it.run_fn(f, [v])
    if target in ('Vec', 'String') and isinstance(v, (Buf, Slice)):
        s = as_slice(it, v)
        if isinstance(v, Buf):
            return Buf(v.arr, v.len, v.maxlen, target)
        return new_buf_from(it, s, target)
    if target in ('IpAddr', 'SocketAddr'):
        from . import netaddr
        return netaddr.m_into_ip(it, a, info) if target == 'IpAddr' else netaddr.m_into_sa(it, a, info)
    if target == 'Box':
        return BoxObj(v)
    raise Unsupported('Into/From %s -> %s (%s)' % (rt, target, info['text']))


@model('IntoIterator::into_iter')
def _(it, a, info):
    v = a[0]
    if isinstance(v, VecObj):
        return Opaque('VecIntoIter', vec=v, pos=0)
    if isinstance(v, Struct) and v.ty == 'Range':
        return v
    return v


# ------------------------------------------------------------------------------ panics / logging / fmt

@model('panicking::panic', 'panicking::panic_fmt', 'panicking::panic_display', 'panicking::unreachable_display',
       'panicking::panic_explicit', 'panicking::assert_failed', 'panicking::panic_nounwind', 'option::unwrap_failed',
       'result::unwrap_failed', 'option::expect_failed', 'panicking::panic_bounds_check', 'begin_panic')
def _panic(it, a, info):
    msg = ''
    if a:
        try:
            s = as_slice(it, a[0]).concrete()
            msg = s.decode('utf-8', 'replace') if s is not None else repr(a[0])
        except Unsupported:
            msg = repr(a[0])
    raise RustPanic(msg or info['text'], tuple(it.callstack))


@model('max_level', 'log::max_level')
def _(it, a, info):
    return bv(0, 64)        # logging off: log::debug!/error! bodies are skipped (they are not the subject of any property)


@model('PartialOrd::le', 'PartialOrd::lt', 'PartialOrd::ge', 'PartialOrd::gt', 'PartialEq::eq', 'PartialEq::ne',
       'Ord::cmp', 'PartialOrd::partial_cmp')
def _cmp(it, a, info):
    x = deref(it, a[0])
    y = deref(it, a[1])
    m = info['method']
    if info.get('self_ty') in ('Level', 'LevelFilter'):
        return z3.BoolVal(False)
    # crate impls on the runtime type
    rt, _ = it.runtime_type(x)
    tr = info['trait']
    cands = it.prog.traitm.get((tr, rt, m))
    if cands:
        return it.run_fn(it._pick_trait(cands, info, a), [a[0], a[1]])
    # provided methods of PartialOrd / PartialEq in terms of the crate's partial_cmp / eq (as std defines them)
    if m in ('lt', 'le', 'gt', 'ge'):
        cands = it.prog.traitm.get((tr, rt, 'partial_cmp'))
        if cands:
            o = it.run_fn(it._pick_trait(cands, info, a), [a[0], a[1]])
            if o.variant == 'None':
                return z3.BoolVal(False)
            k = o.fields[0].idx
            return z3.BoolVal({'lt': k < 0, 'le': k <= 0, 'gt': k > 0, 'ge': k >= 0}[m])
    if m == 'ne':
        cands = it.prog.traitm.get((tr, rt, 'eq'))
        if cands:
            return z3.simplify(z3.Not(it.run_fn(it._pick_trait(cands, info, a), [a[0], a[1]])))
    if isinstance(x, Enum) and isinstance(y, Enum) and m in ('eq', 'ne'):
        e = struct_eq(it, x, y)
        return e if m == 'eq' else z3.simplify(z3.Not(e))
    if isinstance(x, (Slice, Buf)) or isinstance(y, (Slice, Buf)):
        e = s_eq(as_slice(it, x), as_slice(it, y))
        if m == 'eq':
            return z3.simplify(e)
        if m == 'ne':
            return z3.simplify(z3.Not(e))
    if isinstance(x, F32) and isinstance(y, F32):
        return f32_cmp(it, x, y, m)
    if z3.is_bv(x) and z3.is_bv(y):
        signed = (info.get('self_ty') or '') in SIGNED
        lt = (x < y) if signed else z3.ULT(x, y)
        if m == 'eq': return z3.simplify(x == y)
        if m == 'ne': return z3.simplify(x != y)
        if m == 'lt': return z3.simplify(lt)
        if m == 'le': return z3.simplify(z3.Or(lt, x == y))
        if m == 'gt': return z3.simplify(z3.Not(z3.Or(lt, x == y)))
        if m == 'ge': return z3.simplify(z3.Not(lt))
        if m in ('cmp', 'partial_cmp'):
            if it.ctx.branch(lt):
                o = Enum('Ordering', 'Less', -1, [])
            elif it.ctx.branch(x == y):
                o = Enum('Ordering', 'Equal', 0, [])
            else:
                o = Enum('Ordering', 'Greater', 1, [])
            return o if m == 'cmp' else Some(o)
    if z3.is_bool(x) and z3.is_bool(y) and m in ('eq', 'ne'):
        return z3.simplify(x == y) if m == 'eq' else z3.simplify(x != y)
    if isinstance(x, Struct) and x.ty == 'Duration':
        return duration_cmp(it, x, y, m)
    if isinstance(x, Struct) and isinstance(y, Struct) and x.ty == y.ty and m in ('eq', 'ne'):
        cs = []
        for f, g in zip(x.fields, y.fields):
            if z3.is_expr(f) and z3.is_expr(g):
                cs.append(f == g)
            else:
                raise Unsupported('structural eq on %r' % (x,))
        e = z3.simplify(z3.And(*cs)) if cs else z3.BoolVal(True)
        return e if m == 'eq' else z3.simplify(z3.Not(e))
    raise Unsupported('comparison %s on %r, %r' % (info['text'], x, y))


def struct_eq(it, x, y):
    """derived PartialEq: structural equality as a z3 Bool"""
    x, y = deref(it, x), deref(it, y)
    if isinstance(x, Enum) and isinstance(y, Enum):
        if x.idx != y.idx or len(x.fields) != len(y.fields):
            return z3.BoolVal(False)
        cs = [struct_eq(it, f, g) for f, g in zip(x.fields, y.fields)]
        return z3.simplify(z3.And(*cs)) if cs else z3.BoolVal(True)
    if isinstance(x, Struct) and isinstance(y, Struct):
        rt, _ = it.runtime_type(x)
        cands = it.prog.traitm.get(('PartialEq', rt, 'eq'))
        if cands and len(cands) == 1:
            return it.run_fn(cands[0], [Ref(Cell(x)), Ref(Cell(y))])
        cs = [struct_eq(it, f, g) for f, g in zip(x.fields, y.fields)]
        return z3.simplify(z3.And(*cs)) if cs else z3.BoolVal(True)
    if isinstance(x, (Slice, Buf)) and isinstance(y, (Slice, Buf)):
        return z3.simplify(s_eq(as_slice(it, x), as_slice(it, y)))
    if z3.is_expr(x) and z3.is_expr(y):
        return z3.simplify(x == y)
    raise Unsupported('structural equality on %r / %r' % (x, y))


def f32_cmp(it, x, y, m):
    ctx = it.ctx
    if m == 'partial_cmp':
        if x.cls == 'nan' or y.cls == 'nan':
            return NONE()
        def key(f):
            return {'ninf': -1, 'fin': 0, 'inf': 1}[f.cls]
        if key(x) != key(y) or x.cls != 'fin':
            k = (key(x) > key(y)) - (key(x) < key(y))
            return Some(Enum('Ordering', ['Less', 'Equal', 'Greater'][k + 1], k, []))
        if ctx.branch(x.milli < y.milli):
            return Some(Enum('Ordering', 'Less', -1, []))
        if ctx.branch(x.milli == y.milli):
            return Some(Enum('Ordering', 'Equal', 0, []))
        return Some(Enum('Ordering', 'Greater', 1, []))
    raise Unsupported('f32 ' + m)


# ------------------------------------------------------------------------------ str / slices

@model('str::trim', 'str::trim_start', 'str::trim_end')
def _trim(it, a, info):
    s = as_slice(it, a[0])
    m = info['method']
    co, cl = conc(s.off), conc(s.len)
    if co is not None and cl is not None and cl <= 4096:
        x, y = 0, cl
        if m != 'trim_end':
            while x < y and it.ctx.branch(is_ws(s.at(x))):
                x += 1
        if m != 'trim_start':
            while y > x and it.ctx.branch(is_ws(s.at(y - 1))):
                y -= 1
        return Slice(s.buf, z3.simplify(s.off + x), bv(y - x), s.is_str)
    ctx = it.ctx
    x = ctx.fresh_bv('trim_a') if m != 'trim_end' else bv(0)
    y = ctx.fresh_bv('trim_b') if m != 'trim_start' else s.len
    cs = [z3.ULE(x, y), z3.ULE(y, s.len)]
    if m != 'trim_end':
        cs.append(all_in(s, is_ws, bv(0), x))
        cs.append(z3.Or(x == s.len, z3.Not(is_ws(s.at(x)))))
    if m != 'trim_start':
        cs.append(all_in(s, is_ws, y, s.len))
        cs.append(z3.Or(y == x, z3.Not(is_ws(s.at(y - 1)))))
        if m == 'trim':
            # all-whitespace string: std returns the empty slice at the end; its position is irrelevant
            pass
    ctx.add(z3.And(*cs))
    return sub(s, x, y - x)


@model('str::len', 'slice::len', 'String::len', 'AsciiString::len', 'AsciiStr::len', 'Vec::len', 'VecDeque::len')
def _len(it, a, info):
    v = deref(it, a[0])
    if isinstance(v, (VecObj,)):
        return bv(len(v.items))
    if isinstance(v, ListSlice):
        return bv(v.end - v.start)
    if isinstance(v, Opaque) and hasattr(v, 'model_len'):
        return v.model_len(it)
    return as_slice(it, v).len


@model('str::is_empty', 'AsciiString::is_empty', 'AsciiStr::is_empty', 'String::is_empty', 'slice::is_empty', 'Vec::is_empty')
def _is_empty(it, a, info):
    v = deref(it, a[0])
    if isinstance(v, VecObj):
        return z3.BoolVal(not v.items)
    if isinstance(v, ListSlice):
        return z3.BoolVal(v.end == v.start)
    return z3.simplify(as_slice(it, v).len == 0)


@model('str::as_bytes', 'AsciiStr::as_str', 'AsciiStr::as_bytes', 'String::as_bytes', 'String::as_str', 'Vec::as_slice',
       'AsciiString::as_str', 'str::as_ref', 'String::as_mut_str', 'Vec::as_mut_slice')
def _as_bytes(it, a, info):
    v = deref(it, a[0])
    if is_symtext(it, v):
        return v
    if isinstance(v, VecObj):
        return ListSlice(v)
    s = as_slice(it, v)
    return Slice(s.buf, s.off, s.len, info['method'] in ('as_str', 'as_mut_str'))


@model('String::into_bytes', 'AsciiString::into', 'String::from_utf8_unchecked')
def _(it, a, info):
    v = a[0]
    if isinstance(v, Opaque) and v.kind == 'DecStr':
        c = conc(v.val)
        if c is None:
            return v
        return Buf.from_bytes(str(c).encode(), 'Vec')
    if isinstance(v, Buf):
        return Buf(v.arr, v.len, v.maxlen, 'Vec' if info['method'] == 'into_bytes' else 'String')
    raise Unsupported('into_bytes of %r' % (v,))


@model('str::eq_ignore_ascii_case')
def _(it, a, info):
    return z3.simplify(s_eq(as_slice(it, a[0]), as_slice(it, a[1]), fold=True))


@model('str::starts_with')
def _(it, a, info):
    s = as_slice(it, a[0])
    p = deref(it, a[1])
    if z3.is_bv(p):
        return z3.simplify(z3.And(z3.UGE(s.len, 1), z3.ZeroExt(24, s.at(0)) == p))
    if isinstance(p, (FnItem,)) or (isinstance(p, Struct) and p.ty.startswith('{closure@')):
        pred = char_pred_from(it, p)
        if it.ctx.branch(s.len == 0):
            return z3.BoolVal(False)
        return z3.simplify(pred(s.at(0)))
    pc = as_slice(it, p).concrete()
    if pc is None:
        raise Unsupported('starts_with symbolic pattern')
    return z3.simplify(z3.And(z3.UGE(s.len, len(pc)), *[s.at(i) == ch for i, ch in enumerate(pc)]))


@model('str::ends_with')
def _(it, a, info):
    s = as_slice(it, a[0])
    pc = as_slice(it, a[1]).concrete()
    if pc is None:
        raise Unsupported('ends_with symbolic pattern')
    n = len(pc)
    return z3.simplify(z3.And(z3.UGE(s.len, n), *[s.at(s.len - n + i) == ch for i, ch in enumerate(pc)]))


@model('slice::ends_with', 'slice::starts_with', 'Vec::ends_with', 'Vec::starts_with')
def _(it, a, info):
    s = as_slice(it, a[0])
    p = as_slice(it, a[1])
    n = conc(p.len)
    if n is None:
        raise Unsupported('slice::%s with a pattern of symbolic length' % info['method'])
    if info['method'] == 'ends_with':
        return z3.simplify(z3.And(z3.UGE(s.len, n), *[s.at(s.len - n + i) == p.at(i) for i in range(n)]))
    return z3.simplify(z3.And(z3.UGE(s.len, n), *[s.at(i) == p.at(i) for i in range(n)]))


@model('str::contains')
def _(it, a, info):
    s = as_slice(it, a[0])
    p = deref(it, a[1])
    if isinstance(p, FnItem):
        if 'is_whitespace' in p.name:
            return z3.simplify(exists_in(s, is_ws))
        raise Unsupported('contains(%s)' % p.name)
    if z3.is_bv(p):
        return z3.simplify(exists_in(s, lambda c: z3.ZeroExt(24, c) == p))
    pc = as_slice(it, p).concrete()
    if pc is None:
        raise Unsupported('contains symbolic pattern')
    n = len(pc)
    if n == 0:
        return z3.BoolVal(True)
    c = s.concrete()
    if c is not None:
        return z3.BoolVal(pc in c)
    alts = []
    for p0 in range(max(0, s.maxlen - n + 1)):
        alts.append(z3.And(z3.ULE(bv(p0 + n), s.len), *[s.at(p0 + i) == ch for i, ch in enumerate(pc)]))
    return z3.simplify(z3.Or(*alts)) if alts else z3.BoolVal(False)


@model('str::to_ascii_lowercase', 'str::to_lowercase', 'str::to_ascii_uppercase')
def _(it, a, info):
    s = as_slice(it, a[0])
    if info['method'] == 'to_ascii_uppercase':
        f = lambda c: z3.If(z3.And(z3.UGE(c, 97), z3.ULE(c, 122)), c - 32, c)
    else:
        f = lower
    return new_buf_from(it, s, 'String', f)


@model('ToOwned::to_owned', 'ToString::to_string', 'str::to_string', 'str::to_owned', 'String::from', 'str::into',
       'slice::to_vec', 'String::clone')
def _to_owned(it, a, info):
    v = deref(it, a[0])
    if z3.is_bv(v):
        return DecStr(v)
    if isinstance(v, Opaque) and v.kind == 'HttpDate':
        return Buf(v.arr, bv(29), 29, 'String', tag='httpdate')
    s = as_slice(it, v)
    kind = 'Vec' if info['method'] == 'to_vec' else 'String'
    return new_buf_from(it, s, kind)


class DecStr(Opaque):
    """decimal rendering of an integer, kept symbolic (formatting itself is std's and is not re-verified)"""

    def __init__(self, val):
        Opaque.__init__(self, 'DecStr')
        self.val = val


@model('str::split', 'str::splitn')
def _split(it, a, info):
    if info['method'] == 'splitn':
        s = as_slice(it, a[0]); n = conc(a[1]); p = a[2]
        if n is None:
            raise Unsupported('splitn symbolic count')
    else:
        s = as_slice(it, a[0]); n = None; p = a[1]
    p = deref(it, p)
    if z3.is_bv(p):
        pc = conc(p)
        if pc is None or pc > 127:
            raise Unsupported('split on symbolic/non-ascii char')
    else:
        raise Unsupported('split pattern %r' % (p,))
    return Opaque('Split', hay=s, sep=pc, pos=bv(0), done=False, left=n)


@model('<Split as Iterator>::next', '<SplitN as Iterator>::next')
def _split_next(it, a, info):
    sp = deref(it, a[0])
    return split_next(it, sp)


def split_next(it, sp):
    if sp.done:
        return NONE()
    s = sp.hay
    if sp.left is not None:
        if sp.left == 0:
            sp.done = True
            return NONE()
        if sp.left == 1:
            sp.done = True
            return Some(sub(s, sp.pos, s.len - sp.pos))
        sp.left -= 1
    sep = sp.sep
    i = find_byte(it, s, lambda c: c == sep, sp.pos, 'split')
    if i is None:
        sp.done = True
        return Some(sub(s, sp.pos, s.len - sp.pos))
    r = sub(s, sp.pos, i - sp.pos)
    sp.pos = z3.simplify(i + 1)
    return Some(r)


@model('<Split as Iterator>::filter_map', 'Iterator::filter_map', 'Iterator::map', 'Iterator::filter', 'Iterator::flat_map')
def _(it, a, info):
    return Opaque('Adapter', inner=a[0], f=a[1], how=info['method'], cur=None)


@model('Iterator::find_map')
def _(it, a, info):
    src = a[0] if isinstance(a[0], Ref) else Ref(Cell(a[0]))
    while True:
        x = iter_next(it, src)
        if x.variant == 'None':
            return NONE()
        r = it.call_callable(a[1], [x.fields[0]])
        if r.variant == 'Some':
            return r
        it.ctx.tick(10)


def iter_next(it, itv):
    """generic Iterator::next on model iterators; returns Option value"""
    v = deref(it, itv)
    if isinstance(v, Opaque):
        if v.kind == 'Split':
            return split_next(it, v)
        if v.kind == 'Adapter' and v.how == 'flat_map':
            while True:
                if v.cur is not None:
                    y = iter_next(it, v.cur)
                    if y.variant == 'Some':
                        return y
                    v.cur = None
                x = iter_next(it, v.inner)
                if x.variant == 'None':
                    return x
                inner = it.call_callable(v.f, [x.fields[0]])
                v.cur = inner if isinstance(inner, Ref) else Ref(Cell(inner))
                it.ctx.tick(10)
        if v.kind == 'Adapter':
            while True:
                x = iter_next(it, v.inner)
                if x.variant == 'None':
                    return x
                if v.how == 'map':
                    return Some(it.call_callable(v.f, [x.fields[0]]))
                if v.how == 'deref':
                    return Some(clone_val(it, deref(it, x.fields[0])))
                if v.how == 'filter_map':
                    r = it.call_callable(v.f, [x.fields[0]])
                    if r.variant == 'Some':
                        return r
                elif v.how == 'filter':
                    c = Cell(x.fields[0])
                    if it.ctx.branch(it.call_callable(v.f, [Ref(c)])):
                        return x
                it.ctx.tick(10)
        if v.kind == 'SliceIter':
            if v.pos < v.end:
                r = Ref(v.vec, (('i', v.pos),), v.mut)
                v.pos += 1
                return Some(r)
            return NONE()
        if v.kind == 'ByteIter':
            return _byteiter_next(it, v)
        if v.kind == 'VecIntoIter':
            if v.pos < len(v.vec.items):
                x = v.vec.items[v.pos]
                v.pos += 1
                return Some(x)
            return NONE()
        if hasattr(v, 'iter_next'):
            return v.iter_next(it)
    if isinstance(v, Struct) and v.ty == 'Range':
        lo, hi = v.fields
        if it.ctx.branch(z3.ULT(lo, hi)):
            v.fields[0] = z3.simplify(lo + 1)
            return Some(lo)
        return NONE()
    rt, rv = it.runtime_type(v)
    cands = it.prog.traitm.get(('Iterator', rt, 'next'))
    if cands:
        return it.run_fn(cands[0], [itv])
    raise Unsupported('Iterator::next on %r' % (v,))


@model('Iterator::next')
def _(it, a, info):
    return iter_next(it, a[0])


@model('Iterator::collect', '<FilterMap as Iterator>::collect')
def _(it, a, info):
    out = VecObj()
    src = Cell(a[0])
    while True:
        x = iter_next(it, Ref(src))
        if x.variant == 'None':
            return out
        out.items.append(x.fields[0])
        it.ctx.tick(10)


@model('Iterator::find', 'Iterator::any', 'Iterator::all', 'Iterator::position')
def _(it, a, info):
    m = info['method']
    src = a[0] if isinstance(a[0], Ref) else Ref(Cell(a[0]))
    idx = 0
    while True:
        x = iter_next(it, src)
        if x.variant == 'None':
            return {'find': NONE(), 'any': z3.BoolVal(False), 'all': z3.BoolVal(True), 'position': NONE()}[m]
        item = x.fields[0]
        if m == 'find':
            c = Cell(item)
            if it.ctx.branch(it.call_callable(a[1], [Ref(c)])):
                return Some(item)
        else:
            r = it.ctx.branch(it.call_callable(a[1], [item]))
            if m == 'any' and r:
                return z3.BoolVal(True)
            if m == 'all' and not r:
                return z3.BoolVal(False)
            if m == 'position' and r:
                return Some(bv(idx))
        idx += 1
        it.ctx.tick(10)


class WindowsIter(Opaque):
    """<[u8]>::windows(n) over a byte slice of concrete length"""

    def __init__(self, s, n, total):
        Opaque.__init__(self, 'Windows')
        self.s, self.n, self.total, self.pos = s, n, total, 0

    def iter_next(self, it):
        if self.pos + self.n <= self.total:
            w = Slice(self.s.buf, z3.simplify(self.s.off + self.pos), bv(self.n), self.s.is_str)
            self.pos += 1
            return Some(w)
        return NONE()


@model('slice::windows', 'Vec::windows')
def _(it, a, info):
    v = deref(it, a[0])
    if not isinstance(v, (Slice, Buf)):
        raise Unsupported('windows on %r' % (v,))
    s = as_slice(it, v)
    n = conc(a[1])
    total = conc(s.len)
    if n is None or total is None:
        raise Unsupported('windows over a slice of symbolic length')
    if n == 0:
        raise RustPanic('window size must be non-zero', tuple(it.callstack))
    return WindowsIter(s, n, total)


@model('slice::iter', 'slice::iter_mut', 'Vec::iter', 'Vec::iter_mut')
def _(it, a, info):
    v = deref(it, a[0])
    mut = info['method'] == 'iter_mut'
    if isinstance(v, VecObj):
        return Opaque('SliceIter', vec=v, pos=0, end=len(v.items), mut=mut)
    if isinstance(v, ListSlice):
        return Opaque('SliceIter', vec=v.vec, pos=v.start, end=v.end, mut=mut)
    if isinstance(v, Struct) and v.ty == '[array]':
        return Opaque('SliceIter', vec=VecObj(v.fields), pos=0, end=len(v.fields), mut=mut)
    raise Unsupported('slice::iter on %r' % (v,))


@model('str::parse')
def _(it, a, info):
    g = generic_args(info['text'], 'parse')
    if not g:
        raise Unsupported('parse without type')
    t = base_type_name(g[0])
    cands = it.prog.traitm.get(('FromStr', t, 'from_str'))
    if cands:
        return it.run_fn(cands[0], [a[0]])
    m = MODELS.get('<%s as FromStr>::from_str' % t)
    if m:
        return m(it, a, info)
    raise Unsupported('parse::<%s>' % t)


def parse_uint(it, s, bits=64, radix=10, allow_plus=True):
    """Result<uN, ParseIntError> as std: optional '+', >=1 digits, no overflow. Forks: ok / err."""
    ctx = it.ctx
    c = s.concrete()
    if c is not None:
        t = c
        if allow_plus and t[:1] == b'+' :
            t = t[1:]
        digs = b'0123456789abcdefABCDEF' if radix == 16 else b'0123456789'
        if t and all(ch in digs for ch in t):
            v = int(t.decode(), radix)
            if v < (1 << bits):
                return Ok(bv(v, bits))
        return Err(Struct('ParseIntError', []))
    M = s.maxlen
    cn = conc(s.len)
    if cn is not None and radix == 10:
        # concrete layout: optional '+', then digits; overflow decided by a lexicographic comparison with the decimal text of
        # the maximum (equal-length digit strings compare like numbers), the value by 64-bit Horner (no overflow when valid)
        def attempt(start):
            n = cn - start
            if n <= 0:
                return z3.BoolVal(False), None
            ds = [s.at(i) for i in range(start, cn)]
            alld = z3.And(*[z3.And(z3.UGE(d, 0x30), z3.ULE(d, 0x39)) for d in ds])
            mx = str((1 << bits) - 1)
            if n < len(mx):
                fits = z3.BoolVal(True)
            else:
                ref = ('0' * (n - len(mx)) + mx).encode()
                fits = z3.BoolVal(True)
                for d, r in reversed(list(zip(ds, ref))):
                    fits = z3.Or(z3.ULT(d, r), z3.And(d == r, fits))
            acc = z3.BitVecVal(0, bits)
            for d in ds:
                acc = acc * 10 + z3.ZeroExt(bits - 8, d - 0x30)
            return z3.And(alld, fits), acc
        if allow_plus and cn >= 1 and ctx.branch(s.at(0) == 0x2b):
            ok, acc = attempt(1)
        else:
            ok, acc = attempt(0)
        if acc is not None and ctx.branch(ok):
            v = ctx.fresh_bv('parsed', bits)
            ctx.add(v == acc)
            return Ok(v)
        return Err(Struct('ParseIntError', []))
    W = bits + 8 + 4 * min(M, 24)
    if M > 24:
        raise Unsupported('integer parse of a symbolic-length string longer than 24 bytes')
    plus = z3.And(z3.UGE(s.len, 1), s.at(0) == 0x2b) if allow_plus else z3.BoolVal(False)
    start = z3.If(plus, bv(1), bv(0))

    def digit_ok(ch):
        if radix == 10:
            return z3.And(z3.UGE(ch, 0x30), z3.ULE(ch, 0x39))
        return z3.Or(z3.And(z3.UGE(ch, 0x30), z3.ULE(ch, 0x39)), z3.And(z3.UGE(ch, 0x61), z3.ULE(ch, 0x66)),
                     z3.And(z3.UGE(ch, 0x41), z3.ULE(ch, 0x46)))

    def digit_val(ch):
        if radix == 10:
            return z3.ZeroExt(W - 8, ch - 0x30)
        return z3.ZeroExt(W - 8, z3.If(z3.ULE(ch, 0x39), ch - 0x30, z3.If(z3.ULE(ch, 0x46), ch - 0x37, ch - 0x57)))

    acc = z3.BitVecVal(0, W)
    alld = []
    for i in range(M):
        inr = z3.And(z3.ULE(start, bv(i)), z3.ULT(bv(i), s.len))
        ch = s.at(i)
        alld.append(z3.Implies(inr, digit_ok(ch)))
        acc = z3.If(inr, acc * radix + digit_val(ch), acc)
    valid = z3.And(z3.UGT(s.len, start), z3.ULE(s.len, M), z3.ULT(acc, z3.BitVecVal(1 << bits, W)), *alld)
    if ctx.branch(valid):
        v = ctx.fresh_bv('parsed', bits)
        ctx.add(v == z3.Extract(bits - 1, 0, acc))
        return Ok(v)
    return Err(Struct('ParseIntError', []))


@model('<usize as FromStr>::from_str', '<u64 as FromStr>::from_str')
def _(it, a, info):
    return parse_uint(it, as_slice(it, a[0]), 64)


@model('usize::from_str_radix', 'u64::from_str_radix')
def _(it, a, info):
    r = conc(a[1])
    return parse_uint(it, as_slice(it, a[0]), 64, r)


@model('<[array] as IndexMut>::index_mut', '<[array] as Index>::index_', '<str as Index>::index', '<str as IndexMut>::index_mut', '<[slice] as Index>::index', '<[slice] as IndexMut>::index_mut',
       '<Vec as Index>::index', '<Vec as IndexMut>::index_mut', '<[array] as Index>::index', '<String as Index>::index')
def _index(it, a, info):
    v = deref(it, a[0])
    r = a[1]
    tt = info.get('trait_text') or ''
    if isinstance(v, (VecObj, ListSlice)) or (isinstance(v, Struct) and v.ty == '[array]'):
        ls = v if isinstance(v, ListSlice) else ListSlice(v if isinstance(v, VecObj) else VecObj(v.fields))
        if isinstance(r, Struct) and r.ty == 'RangeFull':
            return ls
        if z3.is_bv(r):
            k = conc(r)
            if k is None:
                raise Unsupported('symbolic index into Vec<T>')
            if k >= ls.end - ls.start:
                raise RustPanic('index out of bounds', tuple(it.callstack))
            return Ref(ls.vec, (('i', ls.start + k),), True)
        raise Unsupported('list index by %r' % (r,))
    s = as_slice(it, v)
    ctx = it.ctx
    if isinstance(r, Struct) and r.ty == 'RangeFull':
        return s
    if isinstance(r, Struct) and r.ty == 'RangeFrom':
        x = r.fields[0]
        if not ctx.branch(z3.ULE(x, s.len)):
            raise RustPanic('range start index out of range for slice', tuple(it.callstack))
        return sub(s, x, s.len - x)
    if isinstance(r, Struct) and r.ty == 'RangeTo':
        y = r.fields[0]
        if not ctx.branch(z3.ULE(y, s.len)):
            raise RustPanic('range end index out of range for slice', tuple(it.callstack))
        return sub(s, bv(0), y)
    if isinstance(r, Struct) and r.ty == 'Range':
        x, y = r.fields
        if not ctx.branch(z3.And(z3.ULE(x, y), z3.ULE(y, s.len))):
            raise RustPanic('range index out of range for slice', tuple(it.callstack))
        return sub(s, x, y - x)
    if z3.is_bv(r):
        if not ctx.branch(z3.ULT(r, s.len)):
            raise RustPanic('index out of bounds', tuple(it.callstack))
        return Ref(Cell(s), (('si', r),), True)
    raise Unsupported('index by %r' % (r,))


# ------------------------------------------------------------------------------ ascii crate

@model('AsciiString::from_ascii', 'AsciiStr::from_ascii')
def _(it, a, info):
    v = a[0]
    if is_symtext(it, v):
        return Ok(deref(it, v))
    s = as_slice(it, v)
    ok = z3.simplify(all_in(s, lambda c: z3.ULT(c, 128)))
    if it.ctx.branch(ok):
        if isinstance(v, Buf):
            return Ok(Buf(v.arr, v.len, v.maxlen, 'AsciiString'))
        return Ok(new_buf_from(it, s, 'AsciiString'))
    return Err(Struct('FromAsciiError', [v]))


@model('char::is_whitespace', 'char::methods::is_whitespace')
def _(it, a, info):
    c = a[0]
    return z3.simplify(z3.Or(c == 0x20, z3.And(z3.UGE(c, 9), z3.ULE(c, 13)), c == 0x85, c == 0xa0))


# ------------------------------------------------------------------------------ Vec<T> (concrete length) and Vec<u8>

def elem_is_u8(info, method):
    t = info['text']
    return bool(re.search(r'Vec::<u8>', t)) or bool(re.search(r'Vec<u8>', info.get('self_text') or ''))


@model('Vec::new', 'Vec::with_capacity', 'VecDeque::new_', 'String::new', 'String::with_capacity')
def _vec_new(it, a, info):
    if info['segs'][-2] == 'String':
        return Buf(z3.K(BV64, bv(0, 8)), 0, 1 << 20, 'String')
    if elem_is_u8(info, info['method']):
        return Buf(z3.K(BV64, bv(0, 8)), 0, it.ctx.data.get('vec_u8_maxlen', 64), 'Vec')
    return VecObj()


@model('Vec::push')
def _(it, a, info):
    v = deref(it, a[0])
    if isinstance(v, Buf):
        v.arr = z3.Store(v.arr, v.len, a[1])
        v.len = z3.simplify(v.len + 1)
        return unit()
    v.items.append(a[1])
    return unit()


@model('Vec::pop')
def _(it, a, info):
    v = deref(it, a[0])
    if isinstance(v, Buf):
        if it.ctx.branch(v.len == 0):
            return NONE()
        v.len = z3.simplify(v.len - 1)
        return Some(z3.simplify(z3.Select(v.arr, v.len)))
    if v.items:
        return Some(v.items.pop())
    return NONE()


@model('Vec::insert')
def _(it, a, info):
    v = deref(it, a[0])
    k = conc(a[1])
    if isinstance(v, VecObj) and k is not None:
        if k > len(v.items):
            raise RustPanic('insertion index out of bounds', tuple(it.callstack))
        v.items.insert(k, a[2])
        return unit()
    raise Unsupported('Vec::insert')


@model('Vec::clear')
def _(it, a, info):
    v = deref(it, a[0])
    if isinstance(v, Buf):
        v.len = bv(0)
    else:
        for x in v.items:
            it.drop_value(x)
        v.items.clear()
    return unit()


@model('Vec::truncate')
def _(it, a, info):
    v = deref(it, a[0])
    n = a[1]
    if isinstance(v, Buf):
        v.len = z3.simplify(z3.If(z3.ULT(n, v.len), n, v.len))
        return unit()
    raise Unsupported('truncate')


@model('Vec::extend_from_slice', 'String::push_str')
def _(it, a, info):
    v = deref(it, a[0])
    s = as_slice(it, a[1])
    buf_append(it, v, s)
    return unit()


def buf_append(it, v, s):
    c = s.concrete()
    if c is not None:
        for ch in c:
            v.arr = z3.Store(v.arr, v.len, bv(ch, 8))
            v.len = z3.simplify(v.len + 1)
        return
    i = z3.BitVec('i!', 64)
    old, ol = v.arr, v.len
    v.arr = z3.Lambda([i], z3.If(z3.And(z3.UGE(i, ol), z3.ULT(i, ol + s.len)),
                                  z3.Select(s.buf.arr, s.off + (i - ol)), z3.Select(old, i)))
    v.len = z3.simplify(ol + s.len)


@model('vec::from_elem', 'from_elem')
def _(it, a, info):
    n = a[1]
    e = a[0]
    # allocation event: the size is what C14 looks at
    it.ctx.event('alloc', 'vec::from_elem', n, tuple(it.callstack))
    hook = it.ctx.data.get('alloc_hook')
    if hook:
        hook(it, n, 'vec::from_elem')
    if z3.is_bv(e) and e.size() == 8:
        return Buf(z3.K(BV64, e), n, it.ctx.data.get('vec_u8_maxlen', 1 << 20), 'Vec')
    raise Unsupported('from_elem of non-byte')


@model('VecDeque::new', 'VecDeque::with_capacity')
def _(it, a, info):
    return VecObj()


@model('VecDeque::push_back')
def _(it, a, info):
    deref(it, a[0]).items.append(a[1])
    return unit()


@model('VecDeque::pop_front')
def _(it, a, info):
    v = deref(it, a[0])
    if v.items:
        return Some(v.items.pop(0))
    return NONE()


@model('VecDeque::is_empty')
def _(it, a, info):
    return z3.BoolVal(not deref(it, a[0]).items)


@model('slice::sort_by')
def _(it, a, info):
    """stable sort with std's documented precondition: the comparator must be a total order on the elements.
    The comparator is evaluated on every ordered pair; a pair with cmp(a,b) and cmp(b,a) inconsistent, or a
    non-transitive triple, is a precondition violation (std may panic)."""
    ls = deref(it, a[0])
    if isinstance(ls, VecObj):
        ls = ListSlice(ls)
    items = ls.vec.items[ls.start:ls.end]
    n = len(items)
    cmpf = a[1]
    res = {}
    for i in range(n):
        for j in range(n):
            if i == j:
                continue
            ci, cj = Cell(items[i]), Cell(items[j])
            o = it.call_callable(cmpf, [Ref(ci), Ref(cj)])
            res[(i, j)] = o.idx
    bad = None
    for i in range(n):
        for j in range(n):
            if i != j and res[(i, j)] != -res[(j, i)]:
                bad = ('asymmetric', i, j)
    for i in range(n):
        for j in range(n):
            for k in range(n):
                if len({i, j, k}) == 3:
                    # transitivity of <= : i<=j and j<=k implies i<=k
                    if res[(i, j)] <= 0 and res[(j, k)] <= 0 and res[(i, k)] > 0:
                        bad = ('intransitive', i, j, k)
                    # equality must be an equivalence compatible with the order
                    if res[(i, j)] == 0 and res[(j, k)] != res[(i, k)]:
                        bad = ('incomparable-not-equivalence', i, j, k)
    if bad:
        it.ctx.event('sort_precondition_violated', bad)
        raise RustPanic('user-provided comparison function does not correctly implement a total order (%s)' % (bad,),
                        tuple(it.callstack))
    # stable insertion sort using the recorded results
    order = list(range(n))
    out = []
    for i in order:
        k = len(out)
        while k > 0 and res[(out[k - 1], i)] > 0:
            k -= 1
        out.insert(k, i)
    ls.vec.items[ls.start:ls.end] = [items[i] for i in out]
    return unit()


# ------------------------------------------------------------------------------ f32 (TE q-values)

@model('<f32 as FromStr>::from_str')
def _(it, a, info):
    """Abstract f32::from_str: (a) RFC 7231 qvalue grammar as exact milli-units, (b) non-finite literals that std
    accepts (nan / inf / infinity, any case, optional sign), (c) everything else: parse error or an unconstrained
    finite value (over-approximation of 'some float')."""
    s = as_slice(it, a[0])
    ctx = it.ctx
    c = s.concrete()
    if c is not None:
        t = c.decode('latin1')
        tl = t.lower()
        sign = ''
        if tl[:1] and tl[0] in '+-':
            sign, tl = tl[0], tl[1:]
        if tl == 'nan':
            return Ok(F32('nan'))
        if tl in ('inf', 'infinity'):
            return Ok(F32('ninf' if sign == '-' else 'inf'))
        try:
            f = float(t)
            if re.match(r'^[+-]?(\d+\.?\d*([eE][+-]?\d+)?|\.\d+([eE][+-]?\d+)?)$', t):
                if abs(f) > 3.4028235e38:
                    return Ok(F32('inf' if f > 0 else 'ninf'))
                m = int(round(f * 1000))
                m = max(min(m, (1 << 31) - 1), -(1 << 31))
                return Ok(F32('fin', z3.BitVecVal(m, 32)))
        except ValueError:
            pass
        return Err(Struct('ParseFloatError', []))
    # symbolic: qvalue grammar  "0" | "1" | ("0"|"1") "." 0*3DIGIT
    d = lambda ch: z3.And(z3.UGE(ch, 0x30), z3.ULE(ch, 0x39))
    L = s.len
    g_q = z3.And(z3.UGE(L, 1), z3.ULE(L, 5), z3.Or(s.at(0) == 0x30, s.at(0) == 0x31),
                 z3.Implies(z3.UGE(L, 2), s.at(1) == 0x2e),
                 z3.Implies(z3.UGE(L, 3), d(s.at(2))), z3.Implies(z3.UGE(L, 4), d(s.at(3))),
                 z3.Implies(z3.UGE(L, 5), d(s.at(4))))
    if ctx.branch(g_q):
        dv = lambda i: z3.ZeroExt(24, s.at(i) - 0x30)
        z = z3.BitVecVal(0, 32)
        milli = dv(0) * 1000 + z3.If(z3.UGE(L, 3), dv(2) * 100, z) + z3.If(z3.UGE(L, 4), dv(3) * 10, z) + \
            z3.If(z3.UGE(L, 5), dv(4), z)
        m = ctx.fresh_bv('q_milli', 32)
        ctx.add(m == milli)
        return Ok(F32('fin', m))

    def ci(i, ch):
        return lower(s.at(i)) == ord(ch)
    is_nan = z3.Or(z3.And(L == 3, ci(0, 'n'), ci(1, 'a'), ci(2, 'n')),
                   z3.And(L == 4, z3.Or(s.at(0) == 0x2b, s.at(0) == 0x2d), ci(1, 'n'), ci(2, 'a'), ci(3, 'n')))
    if ctx.branch(is_nan):
        return Ok(F32('nan'))
    is_inf = z3.Or(z3.And(L == 3, ci(0, 'i'), ci(1, 'n'), ci(2, 'f')),
                   z3.And(L == 4, s.at(0) == 0x2b, ci(1, 'i'), ci(2, 'n'), ci(3, 'f')))
    if ctx.branch(is_inf):
        return Ok(F32('inf'))
    # class (c): malformed for the qvalue grammar. std may accept it (e.g. "1e3", ".5", "-0") or reject it.
    if ctx.branch(ctx.fresh_bool('f32_other_parses')):
        m = ctx.fresh_bv('q_other', 32)
        ctx.event('f32_outside_grammar')
        return Ok(F32('fin', m))
    return Err(Struct('ParseFloatError', []))


def f32_le_const(it, f, milli_const):
    if f.cls == 'nan':
        return z3.BoolVal(False)
    if f.cls == 'inf':
        return z3.BoolVal(False)
    if f.cls == 'ninf':
        return z3.BoolVal(True)
    return f.milli <= milli_const


# ------------------------------------------------------------------------------ io::Error, Cursor, Empty

def io_error(kind, msg=None):
    return Struct('IoError', [Enum('ErrorKind', kind, ERRORKINDS.index(kind), []), msg])


@model('Error::new', 'io::Error::new')
def _(it, a, info):
    k = a[0]
    return Struct('IoError', [k, a[1] if len(a) > 1 else None])


@model('Error::kind', 'io::Error::kind')
def _(it, a, info):
    e = deref(it, a[0])
    return e.fields[0]


@model('Error::other')
def _(it, a, info):
    return io_error('Other', a[0])


@model('Cursor::new')
def _(it, a, info):
    return Opaque('Cursor', data=a[0], pos=bv(0))


@model('io::empty', 'empty')
def _(it, a, info):
    return Struct('Empty', [])


@model('io::sink', 'sink')
def _(it, a, info):
    return Struct('Sink', [])


def reader_read(it, rref, buf):
    """<R as Read>::read dispatched on the run-time reader; rref is a &mut to the reader, buf a byte Slice."""
    info = {'kind': 'qualified', 'self_text': 'R', 'self_ty': 'R', 'trait': 'Read', 'trait_text': 'std::io::Read',
            'method': 'read', 'text': '<R as std::io::Read>::read', 'caller': None}
    return it.dispatch(info, [rref, buf])


def writer_write(it, wref, data, method='write'):
    info = {'kind': 'qualified', 'self_text': 'W', 'self_ty': 'W', 'trait': 'Write', 'trait_text': 'std::io::Write',
            'method': method, 'text': '<W as std::io::Write>::' + method, 'caller': None}
    return it.dispatch(info, [wref, data] if data is not None else [wref])


def copy_bytes(it, dst, src, n):
    """dst[0..n] = src[0..n] for byte slices (n symbolic ok)"""
    cn = conc(n)
    if cn is not None and cn <= 16:
        for i in range(cn):
            dst.buf.arr = z3.Store(dst.buf.arr, dst.off + i, src.at(i))
        return
    i = z3.BitVec('i!', 64)
    old = dst.buf.arr
    dst.buf.arr = z3.Lambda([i], z3.If(z3.And(z3.UGE(i, dst.off), z3.ULT(i, dst.off + n)),
                                        z3.Select(src.buf.arr, src.off + (i - dst.off)), z3.Select(old, i)))


@model('Read::read')
def _read(it, a, info):
    r = deref(it, a[0])
    buf = a[1]
    if isinstance(r, BoxObj):
        return reader_read(it, Ref(r.cell, (), True), buf)
    if isinstance(r, Struct) and r.ty == 'Empty':
        return Ok(bv(0))
    if isinstance(r, Opaque) and r.kind == 'Cursor':
        data = as_slice(it, r.data)
        rem = z3.simplify(z3.If(z3.ULT(r.pos, data.len), data.len - r.pos, bv(0)))
        n = z3.simplify(z3.If(z3.ULT(buf.len, rem), buf.len, rem))
        copy_bytes(it, buf, sub(data, r.pos, n), n)
        r.pos = z3.simplify(r.pos + n)
        return Ok(n)
    if isinstance(r, Opaque) and hasattr(r, 'read'):
        return r.read(it, buf)
    if isinstance(r, Ref):
        return reader_read(it, r, buf)
    raise Unsupported('Read::read on %r' % (r,))


class ChainObj(Opaque):
    """std::io::Chain: the first reader until it reports end-of-stream (for a non-empty buffer), then the second"""

    def __init__(self, first, second):
        Opaque.__init__(self, 'Chain')
        self.first = Cell(first)
        self.second = Cell(second)
        self.done_first = False

    def read(self, it, buf):
        if not self.done_first:
            r = reader_read(it, Ref(self.first, (), True), buf)
            if r.variant == 'Err':
                return r
            n = r.fields[0]
            if it.ctx.branch(z3.And(n == 0, buf.len != 0)):
                self.done_first = True
            else:
                return r
        return reader_read(it, Ref(self.second, (), True), buf)

    def on_drop(self, it, me=None):
        it.drop_value(self.first.v)
        it.drop_value(self.second.v)


@model('Read::chain')
def _(it, a, info):
    return ChainObj(a[0], a[1])


@model('Read::by_ref', 'Write::by_ref')
def _(it, a, info):
    return a[0]


@model('Read::bytes')
def _(it, a, info):
    return Opaque('Bytes', inner=a[0])


@model('<Bytes as Iterator>::next')
def _(it, a, info):
    b = deref(it, a[0])
    while True:
        tmp = Buf(z3.K(BV64, bv(0, 8)), 1, 1, 'array')
        r = reader_read(it, b.inner, whole(tmp))
        if r.variant == 'Ok':
            n = r.fields[0]
            if it.ctx.branch(n == 0):
                return NONE()
            return Some(Ok(z3.simplify(z3.Select(tmp.arr, bv(0)))))
        e = r.fields[0]
        k = e.fields[0]
        if isinstance(k, Enum) and k.variant == 'Interrupted':
            it.ctx.tick(50)
            continue
        return Some(Err(e))


@model('Read::read_to_end')
def _(it, a, info):
    rref = a[0]
    vec = deref(it, a[1])
    total = bv(0)
    rounds = 0
    while True:
        rounds += 1
        if rounds > it.ctx.data.get('read_to_end_rounds', 6):
            raise Unsupported('read_to_end exceeded its round bound')
        chunk = it.ctx.data.get('read_to_end_chunk', 32)
        tmp = Buf(it.ctx.fresh_arr('rte'), chunk, chunk, 'array')
        r = reader_read(it, rref, whole(tmp))
        if r.variant == 'Err':
            k = r.fields[0].fields[0]
            if isinstance(k, Enum) and k.variant == 'Interrupted':
                continue
            return r
        n = r.fields[0]
        if it.ctx.branch(n == 0):
            return Ok(total)
        buf_append(it, vec, Slice(tmp, bv(0), n))
        total = z3.simplify(total + n)


@model('Read::read_exact')
def _(it, a, info):
    raise Unsupported('read_exact')


@model('Write::write_all')
def _(it, a, info):
    w = a[0]
    if is_symtext(it, a[1]) or (isinstance(a[1], Opaque) and a[1].kind == 'HexStr'):
        r = writer_write(it, w, deref(it, a[1]))
        return Ok(unit()) if r.variant == 'Ok' else r
    data = as_slice(it, a[1])
    rounds = 0
    while True:
        rounds += 1
        if rounds > 4:
            raise Unsupported('write_all exceeded its round bound')
        if it.ctx.branch(data.len == 0):
            return Ok(unit())
        r = writer_write(it, w, data)
        if r.variant == 'Err':
            k = r.fields[0].fields[0]
            if isinstance(k, Enum) and k.variant == 'Interrupted':
                continue
            return r
        n = r.fields[0]
        if it.ctx.branch(n == 0):
            return Err(io_error('WriteZero'))
        data = sub(data, n, data.len - n)


@model('Write::write_fmt')
def _(it, a, info):
    w = a[0]
    args = a[1]
    for piece in args.pieces:
        r = MODELS['Write::write_all'](it, [w, piece], info)
        if r.variant == 'Err':
            return r
    return Ok(unit())


@model('Write::write', 'Write::flush')
def _write(it, a, info):
    w = deref(it, a[0])
    m = info['method']
    if isinstance(w, BoxObj):
        return writer_write(it, Ref(w.cell, (), True), a[1] if m == 'write' else None, m)
    if isinstance(w, Ref):
        return writer_write(it, w, a[1] if m == 'write' else None, m)
    if isinstance(w, Struct) and w.ty == 'Sink':
        return Ok(as_slice(it, a[1]).len) if m == 'write' else Ok(unit())
    if isinstance(w, Buf) and w.kind == 'Vec':
        if m == 'write':
            s = as_slice(it, a[1])
            buf_append(it, w, s)
            return Ok(s.len)
        return Ok(unit())
    if isinstance(w, Opaque) and hasattr(w, m):
        return getattr(w, m)(it, *([a[1]] if m == 'write' else []))
    raise Unsupported('Write::%s on %r' % (m, w))


@model('io::copy', 'copy')
def _(it, a, info):
    """std::io::copy: read into a buffer until Ok(0), write_all each piece; Interrupted is retried."""
    r, w = a[0], a[1]
    total = bv(0)
    rounds = 0
    chunk = it.ctx.data.get('copy_chunk', 8192)
    maxl = it.ctx.data.get('copy_maxlen', 64)
    while True:
        rounds += 1
        if rounds > it.ctx.data.get('copy_rounds', 5):
            raise Unsupported('io::copy exceeded its round bound')
        tmp = Buf(it.ctx.fresh_arr('cpy'), chunk, maxl, 'array')
        res = reader_read(it, r, whole(tmp))
        if res.variant == 'Err':
            k = res.fields[0].fields[0]
            if isinstance(k, Enum) and k.variant == 'Interrupted':
                continue
            return res
        n = res.fields[0]
        if it.ctx.branch(n == 0):
            return Ok(total)
        wr = MODELS['Write::write_all'](it, [w, Slice(tmp, bv(0), n)], info)
        if wr.variant == 'Err':
            return wr
        total = z3.simplify(total + n)


# ------------------------------------------------------------------------------ fmt

class FmtArgs(Opaque):
    def __init__(self, pieces):
        Opaque.__init__(self, 'FmtArgs')
        self.pieces = pieces      # list of byte Slices / DecStr


@model('Argument::new_display', 'Argument::new_debug', 'rt::Argument::new_display', 'rt::Argument::new_debug')
def _(it, a, info):
    return Opaque('FmtArg', value=a[0], how=info['method'])


@model('Arguments::from_str', 'Arguments::new_const')
def _(it, a, info):
    return FmtArgs([as_slice(it, a[0])])


def render_display(it, v):
    v = deref(it, v)
    if z3.is_bv(v):
        return [DecStr(v)]
    if isinstance(v, (Slice, Buf)):
        return [as_slice(it, v)]
    if isinstance(v, DecStr):
        return [v]
    rt, _ = it.runtime_type(v)
    cands = it.prog.traitm.get(('Display', rt, 'fmt'))
    if cands:
        fm = Opaque('Formatter', out=[])
        it.run_fn(cands[0], [Ref(Cell(v)), Ref(Cell(fm), (), True)])
        return fm.out
    raise Unsupported('Display of %r' % (v,))


@model('Arguments::new')
def _(it, a, info):
    tpl = as_slice(it, a[0]).concrete()
    argv = deref(it, a[1])
    if isinstance(argv, ListSlice):
        argl = argv.vec.items[argv.start:argv.end]
    elif isinstance(argv, Struct):
        argl = argv.fields
    else:
        raise Unsupported('fmt args %r' % (argv,))
    pieces = []
    i = 0
    k = 0
    while i < len(tpl):
        c = tpl[i]
        if c == 0:
            break
        if c < 0x80:
            pieces.append(whole(Buf.from_bytes(tpl[i + 1:i + 1 + c]), True))
            i += 1 + c
        elif c == 0xc0:
            pieces.extend(render_display(it, argl[k].value))
            k += 1
            i += 1
        else:
            raise Unsupported('fmt template opcode 0x%02x' % c)
    return FmtArgs(pieces)


@model('Formatter::write_str')
def _(it, a, info):
    fm = deref(it, a[0])
    fm.out.append(as_slice(it, a[1]))
    return Ok(unit())


@model('Formatter::write_fmt')
def _(it, a, info):
    fm = deref(it, a[0])
    fm.out.extend(a[1].pieces)
    return Ok(unit())


@model('format', 'fmt::format')
def _(it, a, info):
    ps = a[0].pieces
    if len(ps) == 1 and isinstance(ps[0], DecStr):
        return ps[0]
    out = Buf(z3.K(BV64, bv(0, 8)), 0, 256, 'String')
    for p in ps:
        if isinstance(p, DecStr):
            raise Unsupported('format! mixing text and integers')
        buf_append(it, out, p)
    return out


# ------------------------------------------------------------------------------ time

def duration(secs, nanos):
    """Duration is opaque to tiny-http (only std methods touch it): represented by its total nanoseconds as one
    64-bit vector (durations >= 2^64 ns ~ 584 years are outside the model)."""
    if isinstance(secs, int):
        secs = bv(secs)
    if isinstance(nanos, int):
        nanos = bv(nanos, 32)
    return Struct('Duration', [z3.simplify(secs * bv(1000000000) + z3.ZeroExt(32, nanos))])


def duration_ns(ns):
    return Struct('Duration', [ns])


def dur_ns(d):
    return d.fields[0]


NS = 1000000000


@model('Duration::from_millis')
def _(it, a, info):
    return duration_ns(z3.simplify(a[0] * bv(1000000)))


@model('Duration::from_secs')
def _(it, a, info):
    return duration_ns(z3.simplify(a[0] * bv(NS)))


@model('Duration::from_nanos')
def _(it, a, info):
    return duration_ns(a[0])


@model('Duration::new')
def _(it, a, info):
    return duration(a[0], a[1])


@model('Duration::as_secs')
def _(it, a, info):
    return z3.simplify(z3.UDiv(dur_ns(deref(it, a[0])), bv(NS)))


@model('Duration::subsec_nanos')
def _(it, a, info):
    ns = dur_ns(deref(it, a[0]))
    c = conc(ns)
    if c is not None:
        return bv(c % NS, 32)
    # ns < 1e9: the value itself; otherwise the remainder, defined by the division lemma on fresh q, r (no divider circuit)
    q = it.ctx.fresh_bv('ns_q')
    r = it.ctx.fresh_bv('ns_r')
    lemma = z3.Implies(z3.UGE(ns, bv(NS)), z3.And(z3.ULT(r, bv(NS)), z3.ULE(q, bv(1 << 34)), q * bv(NS) + r == ns))
    w = it.ctx.data.get('world')
    if w is not None and hasattr(w, 'assume') and not getattr(w, 'seq', False):
        w.assume(lemma)
    else:
        it.ctx.add(lemma)
    return z3.simplify(z3.If(z3.ULT(ns, bv(NS)), z3.Extract(31, 0, ns), z3.Extract(31, 0, r)))


@model('Duration::as_millis')
def _(it, a, info):
    return z3.simplify(z3.ZeroExt(64, z3.UDiv(dur_ns(deref(it, a[0])), bv(1000000))))


def duration_cmp(it, x, y, m):
    a, b = dur_ns(x), dur_ns(y)
    lt = z3.ULT(a, b)
    eq = a == b
    return z3.simplify({'lt': lt, 'le': z3.Or(lt, eq), 'gt': z3.Not(z3.Or(lt, eq)), 'ge': z3.Not(lt), 'eq': eq,
                        'ne': z3.Not(eq)}[m])


@model('<Duration as Sub>::sub')
def _(it, a, info):
    x, y = dur_ns(a[0]), dur_ns(a[1])
    if not it.ctx.branch(z3.UGE(x, y)):
        raise RustPanic('overflow when subtracting durations', tuple(it.callstack))
    return duration_ns(z3.simplify(x - y))


@model('<Duration as Add>::add')
def _(it, a, info):
    return duration_ns(z3.simplify(dur_ns(a[0]) + dur_ns(a[1])))


@model('WaitTimeoutResult::timed_out')
def _(it, a, info):
    return deref(it, a[0]).fields[0]


@model('SystemTime::now')
def _(it, a, info):
    return Opaque('SystemTime', t=it.ctx.fresh_bv('systime'))


@model('<HttpDate as From>::from')
def _(it, a, info):
    # the Date value is an opaque 29-byte IMF-fixdate string produced by the httpdate crate (validated separately)
    arr = it.ctx.fresh_arr('httpdate')
    # 29 printable ASCII bytes (IMF-fixdate); the exact text is httpdate's business (validated separately)
    it.ctx.add(z3.And(*[z3.And(z3.UGE(z3.Select(arr, bv(i)), 0x20), z3.ULE(z3.Select(arr, bv(i)), 0x7e)) for i in range(29)]))
    return Opaque('HttpDate', arr=arr)


# ------------------------------------------------------------------------------ vec![a, b, ..] expansion (Box::new_uninit + write + into_vec)

@model('Box::new_uninit')
def _(it, a, info):
    inner = Cell(Struct('MaybeUninit', [None, Struct('ManuallyDrop', [Struct('MaybeDangling', [None])])]))
    b = Struct('Box', [Struct('Unique', [Ref(inner, (), True)])])
    b.fields.append(inner)
    return b


@model('boxed::box_assume_init_into_vec_unsafe', 'box_assume_init_into_vec_unsafe')
def _(it, a, info):
    b = a[0]
    inner = b.fields[0].fields[0]
    v = it.read(inner.root, inner.path)
    arr = v.fields[1].fields[0].fields[0]
    if isinstance(arr, Struct) and arr.ty == '[array]':
        items = list(arr.fields)
        if items and all(z3.is_bv(x) and x.size() == 8 for x in items):
            from .harness import buf_from_exprs
            return buf_from_exprs(items, 'Vec')
        return VecObj(items)
    raise Unsupported('box_assume_init_into_vec_unsafe on %r' % (arr,))


# ------------------------------------------------------------------------------ wider std surface (idioms a refactor may use)

def default_for(info, it=None):
    t = (info.get('text') or '')
    m = re.search(r'Option::<(.*?)>::unwrap_or_default|Result::<(.*?),', t)
    ty = (m.group(1) or m.group(2)) if m else ''
    ty = ty.strip()
    if ty in INT_WIDTH:
        return bv(0, INT_WIDTH[ty])
    if ty == 'bool':
        return z3.BoolVal(False)
    if ty.startswith('&str') or ty == '&str' or ty.startswith("&'"):
        return whole(Buf.from_bytes(b''), True)
    if ty.startswith('String'):
        return Buf.from_bytes(b'', 'String')
    if ty.startswith('Vec<u8>'):
        return Buf.from_bytes(b'', 'Vec')
    if ty.startswith('Vec'):
        return VecObj()
    raise Unsupported('Default for ' + ty)


@model('Option::unwrap_or_default', 'Result::unwrap_or_default')
def _(it, a, info):
    v = a[0]
    if v.variant in ('Some', 'Ok'):
        return v.fields[0]
    return default_for(info, it)


@model('Option::map_or_else')
def _(it, a, info):
    if a[0].variant == 'Some':
        return it.call_callable(a[2], [a[0].fields[0]])
    return it.call_callable(a[1], [])


@model('Option::is_some_and', 'Result::is_ok_and')
def _(it, a, info):
    if a[0].variant in ('Some', 'Ok'):
        return it.call_callable(a[1], [a[0].fields[0]])
    return z3.BoolVal(False)


@model('Option::is_none_or')
def _(it, a, info):
    if a[0].variant == 'Some':
        return it.call_callable(a[1], [a[0].fields[0]])
    return z3.BoolVal(True)


@model('Option::cloned', 'Option::copied')
def _(it, a, info):
    if a[0].variant == 'Some':
        return Some(clone_val(it, deref(it, a[0].fields[0])))
    return NONE()


@model('Option::replace', 'Option::insert')
def _(it, a, info):
    r = a[0]
    old = deref(it, r)
    it.write(r.root, r.path, Some(a[1]))
    if info['method'] == 'replace':
        return old
    return Ref(r.root, r.path + (('d', 'Some'), ('f', 0)), True)


@model('Option::xor')
def _(it, a, info):
    x, y = a[0], a[1]
    if x.variant == 'Some' and y.variant == 'None':
        return x
    if x.variant == 'None' and y.variant == 'Some':
        return y
    return NONE()


@model('Option::or_else')
def _(it, a, info):
    return a[0] if a[0].variant == 'Some' else it.call_callable(a[1], [])


@model('Option::and')
def _(it, a, info):
    return a[1] if a[0].variant == 'Some' else NONE()


@model('Option::zip')
def _(it, a, info):
    if a[0].variant == 'Some' and a[1].variant == 'Some':
        return Some(Struct('(tuple)', [a[0].fields[0], a[1].fields[0]]))
    return NONE()


@model('Option::flatten')
def _(it, a, info):
    return a[0].fields[0] if a[0].variant == 'Some' else NONE()


@model('Result::unwrap_or_else')
def _(it, a, info):
    return a[0].fields[0] if a[0].variant == 'Ok' else it.call_callable(a[1], [a[0].fields[0]])


@model('Result::map_or')
def _(it, a, info):
    return it.call_callable(a[2], [a[0].fields[0]]) if a[0].variant == 'Ok' else a[1]


@model('Result::and')
def _(it, a, info):
    return a[1] if a[0].variant == 'Ok' else a[0]


@model('Result::unwrap_err', 'Result::expect_err')
def _(it, a, info):
    if a[0].variant == 'Err':
        return a[0].fields[0]
    raise RustPanic('called `Result::unwrap_err()` on an `Ok` value', tuple(it.callstack))


@model('Result::as_mut')
def _(it, a, info):
    r = a[0]
    v = deref(it, r)
    return Enum('Result', v.variant, v.idx, [Ref(r.root, r.path + (('d', v.variant), ('f', 0)), True)])


def _scalar_pair(a):
    x, y = a[0], a[1]
    return x, y


@model('cmp::min', 'cmp::max', 'Ord::min', 'Ord::max')
def _(it, a, info):
    x, y = deref(it, a[0]) if isinstance(a[0], Ref) else a[0], deref(it, a[1]) if isinstance(a[1], Ref) else a[1]
    if not (z3.is_bv(x) and z3.is_bv(y)):
        raise Unsupported('min/max on non-integers: %r, %r (%s)' % (x, y, info.get('text')))
    lt = z3.ULT(x, y)
    if info['method'] == 'min':
        return z3.simplify(z3.If(lt, x, y))
    return z3.simplify(z3.If(lt, y, x))


def _int_method(name):
    return ['usize::' + name, 'u64::' + name, 'u32::' + name, 'u16::' + name, 'u8::' + name]


@model(*(_int_method('saturating_sub') + _int_method('saturating_add') + _int_method('wrapping_add') + _int_method('wrapping_sub') +
         _int_method('checked_add') + _int_method('checked_sub') + _int_method('checked_mul') + _int_method('min') + _int_method('max') +
         _int_method('overflowing_sub') + _int_method('overflowing_add') + _int_method('abs_diff')))
def _(it, a, info):
    x, y = a[0], a[1]
    m = info['method']
    w = x.size()
    S = z3.simplify
    if m == 'saturating_sub':
        return S(z3.If(z3.ULT(x, y), z3.BitVecVal(0, w), x - y))
    if m == 'saturating_add':
        r = x + y
        return S(z3.If(z3.ULT(r, x), z3.BitVecVal((1 << w) - 1, w), r))
    if m == 'wrapping_add':
        return S(x + y)
    if m == 'wrapping_sub':
        return S(x - y)
    if m == 'abs_diff':
        return S(z3.If(z3.ULT(x, y), y - x, x - y))
    if m == 'min':
        return S(z3.If(z3.ULT(x, y), x, y))
    if m == 'max':
        return S(z3.If(z3.ULT(x, y), y, x))
    if m == 'checked_add':
        r = S(x + y)
        return NONE() if it.ctx.branch(z3.ULT(r, x)) else Some(r)
    if m == 'checked_sub':
        return NONE() if it.ctx.branch(z3.ULT(x, y)) else Some(S(x - y))
    if m == 'checked_mul':
        wide = z3.ZeroExt(w, x) * z3.ZeroExt(w, y)
        if it.ctx.branch(z3.Extract(2 * w - 1, w, wide) != 0):
            return NONE()
        return Some(S(z3.Extract(w - 1, 0, wide)))
    if m == 'overflowing_sub':
        return Struct('(tuple)', [S(x - y), S(z3.ULT(x, y))])
    if m == 'overflowing_add':
        r = S(x + y)
        return Struct('(tuple)', [r, S(z3.ULT(r, x))])
    raise Unsupported(m)


def _ascii_pred(name):
    def digit(c):
        return z3.And(z3.UGE(c, 0x30), z3.ULE(c, 0x39))

    def alpha(c):
        return z3.Or(z3.And(z3.UGE(c, 0x41), z3.ULE(c, 0x5a)), z3.And(z3.UGE(c, 0x61), z3.ULE(c, 0x7a)))
    table = {
        'is_ascii_digit': digit,
        'is_ascii_alphabetic': alpha,
        'is_ascii_alphanumeric': lambda c: z3.Or(digit(c), alpha(c)),
        'is_ascii_whitespace': lambda c: z3.Or(c == 0x20, c == 0x09, c == 0x0a, c == 0x0c, c == 0x0d),
        'is_ascii_hexdigit': lambda c: z3.Or(digit(c), z3.And(z3.UGE(c, 0x41), z3.ULE(c, 0x46)), z3.And(z3.UGE(c, 0x61), z3.ULE(c, 0x66))),
        'is_ascii_uppercase': lambda c: z3.And(z3.UGE(c, 0x41), z3.ULE(c, 0x5a)),
        'is_ascii_lowercase': lambda c: z3.And(z3.UGE(c, 0x61), z3.ULE(c, 0x7a)),
        'is_ascii_control': lambda c: z3.Or(z3.ULT(c, 0x20), c == 0x7f),
        'is_ascii_graphic': lambda c: z3.And(z3.UGE(c, 0x21), z3.ULE(c, 0x7e)),
        'is_ascii_punctuation': lambda c: z3.And(z3.UGE(c, 0x21), z3.ULE(c, 0x7e), z3.Not(z3.Or(digit(c), alpha(c)))),
        'is_ascii': lambda c: z3.ULT(c, 0x80),
        'is_whitespace': lambda c: z3.Or(c == 0x20, z3.And(z3.UGE(c, 9), z3.ULE(c, 13)), c == 0x85, c == 0xa0),
        'is_numeric': digit,
        'is_alphabetic': alpha,
        'is_alphanumeric': lambda c: z3.Or(digit(c), alpha(c)),
        'is_control': lambda c: z3.Or(z3.ULT(c, 0x20), z3.And(z3.UGE(c, 0x7f), z3.ULE(c, 0x9f))),
    }
    return table.get(name)


def char_pred_from(it, p):
    """pattern value -> predicate over a byte expression (ASCII strings): char, fn item, closure, &[char]"""
    p = deref(it, p)
    if z3.is_bv(p):
        c = conc(p)
        if c is None or c > 127:
            raise Unsupported('symbolic / non-ascii char pattern')
        return lambda ch: ch == c
    if isinstance(p, FnItem):
        f = _ascii_pred(strip_generics(p.name).split('::')[-1])
        if f is None:
            raise Unsupported('char predicate ' + p.name)
        return f
    if isinstance(p, Struct) and p.ty.startswith('{closure@'):
        def pred(ch):
            r = it.call_callable(p, [z3.ZeroExt(24, ch)])
            return r
        return pred
    raise Unsupported('pattern %r' % (p,))


for _n in ('is_ascii_digit', 'is_ascii_alphabetic', 'is_ascii_alphanumeric', 'is_ascii_whitespace', 'is_ascii_hexdigit',
           'is_ascii_uppercase', 'is_ascii_lowercase', 'is_ascii_control', 'is_ascii_graphic', 'is_ascii_punctuation', 'is_ascii',
           'is_numeric', 'is_alphabetic', 'is_alphanumeric', 'is_control'):
    def _mk(nm):
        def f(it, a, info):
            c = deref(it, a[0])
            if isinstance(c, (Slice, Buf)):
                s = as_slice(it, c)
                return z3.simplify(all_in(s, _ascii_pred(nm)))
            if c.size() == 32:
                lowb = z3.Extract(7, 0, c)
                return z3.simplify(z3.And(z3.ULT(c, 256), _ascii_pred(nm)(lowb)))
            return z3.simplify(_ascii_pred(nm)(c))
        return f
    for _pre in ('u8::', 'char::', 'char::methods::', 'str::', 'slice::', 'AsciiChar::'):
        MODELS.setdefault(_pre + _n, _mk(_n))


@model('u8::to_ascii_lowercase', 'char::to_ascii_lowercase', 'u8::to_ascii_uppercase', 'char::to_ascii_uppercase',
       'char::methods::to_ascii_lowercase', 'char::methods::to_ascii_uppercase')
def _(it, a, info):
    c = deref(it, a[0])
    if info['method'].endswith('lowercase'):
        return z3.simplify(z3.If(z3.And(z3.UGE(c, 65), z3.ULE(c, 90)), c + 32, c))
    return z3.simplify(z3.If(z3.And(z3.UGE(c, 97), z3.ULE(c, 122)), c - 32, c))


@model('u8::eq_ignore_ascii_case', 'char::eq_ignore_ascii_case')
def _(it, a, info):
    x, y = deref(it, a[0]), deref(it, a[1])
    return z3.simplify(lower(x) == lower(y))


@model('str::find', 'str::rfind')
def _(it, a, info):
    s = as_slice(it, a[0])
    p = deref(it, a[1])
    if isinstance(p, (Slice, Buf)):
        pc = as_slice(it, p).concrete()
        if pc is None or len(pc) != 1:
            if pc is not None and info['method'] == 'find':
                n = len(pc)
                cl = conc(s.len)
                if cl is not None:
                    for i in range(0, cl - n + 1):
                        if it.ctx.branch(z3.And(*[s.at(i + j) == pc[j] for j in range(n)])):
                            return Some(bv(i))
                    return NONE()
            raise Unsupported('str::find with a multi-byte / symbolic pattern')
        pred = lambda ch: ch == pc[0]
    else:
        pred = char_pred_from(it, p)
    if info['method'] == 'rfind':
        cl = conc(s.len)
        if cl is None:
            raise Unsupported('rfind on symbolic-length string')
        for i in range(cl - 1, -1, -1):
            if it.ctx.branch(pred(s.at(i))):
                return Some(bv(i))
        return NONE()
    i = find_byte(it, s, pred, None, 'find')
    return NONE() if i is None else Some(i)


@model('str::split_once', 'str::rsplit_once')
def _(it, a, info):
    s = as_slice(it, a[0])
    p = deref(it, a[1])
    if isinstance(p, (Slice, Buf)):
        pc = as_slice(it, p).concrete()
        if pc is None or len(pc) != 1:
            raise Unsupported('split_once with a multi-byte pattern')
        pred = lambda ch: ch == pc[0]
    else:
        pred = char_pred_from(it, p)
    if info['method'] == 'rsplit_once':
        cl = conc(s.len)
        if cl is None:
            raise Unsupported('rsplit_once on symbolic-length string')
        for i in range(cl - 1, -1, -1):
            if it.ctx.branch(pred(s.at(i))):
                return Some(Struct('(tuple)', [sub(s, bv(0), bv(i)), sub(s, bv(i + 1), bv(cl - i - 1))]))
        return NONE()
    i = find_byte(it, s, pred, None, 'split_once')
    if i is None:
        return NONE()
    return Some(Struct('(tuple)', [sub(s, bv(0), i), sub(s, i + 1, s.len - i - 1)]))


@model('str::strip_prefix', 'str::strip_suffix')
def _(it, a, info):
    s = as_slice(it, a[0])
    p = deref(it, a[1])
    if z3.is_bv(p):
        pc = bytes([conc(p)])
    else:
        pc = as_slice(it, p).concrete()
    if pc is None:
        raise Unsupported('strip_prefix symbolic pattern')
    n = len(pc)
    if info['method'] == 'strip_prefix':
        c = z3.And(z3.UGE(s.len, n), *[s.at(i) == ch for i, ch in enumerate(pc)])
        if it.ctx.branch(c):
            return Some(sub(s, bv(n), s.len - n))
        return NONE()
    c = z3.And(z3.UGE(s.len, n), *[s.at(s.len - n + i) == ch for i, ch in enumerate(pc)])
    if it.ctx.branch(c):
        return Some(sub(s, bv(0), s.len - n))
    return NONE()


@model('str::trim_matches', 'str::trim_start_matches', 'str::trim_end_matches')
def _(it, a, info):
    s = as_slice(it, a[0])
    pred = char_pred_from(it, a[1])
    cl, co = conc(s.len), conc(s.off)
    if cl is None or co is None:
        raise Unsupported('trim_matches on symbolic layout')
    x, y = 0, cl
    m = info['method']
    if m != 'trim_end_matches':
        while x < y and it.ctx.branch(pred(s.at(x))):
            x += 1
    if m != 'trim_start_matches':
        while y > x and it.ctx.branch(pred(s.at(y - 1))):
            y -= 1
    return Slice(s.buf, z3.simplify(s.off + x), bv(y - x), s.is_str)


@model('str::bytes', 'str::chars', 'slice::iter_bytes', 'str::char_indices')
def _(it, a, info):
    s = as_slice(it, a[0])
    return Opaque('ByteIter', s=s, pos=0, chars=(info['method'] != 'bytes'), idx=(info['method'] == 'char_indices'))


def _byteiter_next(it, v):
    cl = conc(v.s.len)
    if cl is None:
        raise Unsupported('byte iteration over a symbolic-length string')
    if v.pos >= cl:
        return NONE()
    b = z3.simplify(v.s.at(v.pos))
    i = v.pos
    v.pos += 1
    x = z3.simplify(z3.ZeroExt(24, b)) if v.chars else b
    return Some(Struct('(tuple)', [bv(i), x]) if v.idx else x)


@model('str::get', 'slice::get')
def _(it, a, info):
    v = deref(it, a[0])
    r = a[1]
    if isinstance(v, (VecObj, ListSlice)):
        ls = v if isinstance(v, ListSlice) else ListSlice(v)
        k = conc(r) if z3.is_bv(r) else None
        if k is None:
            raise Unsupported('slice::get with symbolic index')
        if k < ls.end - ls.start:
            return Some(Ref(ls.vec, (('i', ls.start + k),)))
        return NONE()
    s = as_slice(it, v)
    ctx = it.ctx
    if isinstance(r, Struct) and r.ty == 'RangeFrom':
        x = r.fields[0]
        return Some(sub(s, x, s.len - x)) if ctx.branch(z3.ULE(x, s.len)) else NONE()
    if isinstance(r, Struct) and r.ty == 'RangeTo':
        y = r.fields[0]
        return Some(sub(s, bv(0), y)) if ctx.branch(z3.ULE(y, s.len)) else NONE()
    if isinstance(r, Struct) and r.ty == 'Range':
        x, y = r.fields
        return Some(sub(s, x, y - x)) if ctx.branch(z3.And(z3.ULE(x, y), z3.ULE(y, s.len))) else NONE()
    if z3.is_bv(r):
        return Some(Ref(Cell(s), (('si', r),))) if ctx.branch(z3.ULT(r, s.len)) else NONE()
    raise Unsupported('get by %r' % (r,))


@model('slice::first', 'slice::last', 'Vec::first', 'Vec::last', 'slice::first_mut', 'slice::last_mut')
def _(it, a, info):
    v = deref(it, a[0])
    first = info['method'].startswith('first')
    if isinstance(v, (VecObj, ListSlice)):
        ls = v if isinstance(v, ListSlice) else ListSlice(v)
        if ls.end == ls.start:
            return NONE()
        return Some(Ref(ls.vec, (('i', ls.start if first else ls.end - 1),), True))
    s = as_slice(it, v)
    if it.ctx.branch(s.len == 0):
        return NONE()
    return Some(Ref(Cell(s), (('si', bv(0) if first else z3.simplify(s.len - 1)),), True))


@model('slice::contains', 'Vec::contains')
def _(it, a, info):
    v = deref(it, a[0])
    x = deref(it, a[1])
    if isinstance(v, (Slice, Buf)):
        s = as_slice(it, v)
        return z3.simplify(exists_in(s, lambda c: c == x))
    raise Unsupported('contains on list')


@model('Vec::remove', 'Vec::swap_remove')
def _(it, a, info):
    v = deref(it, a[0])
    k = conc(a[1])
    if isinstance(v, VecObj) and k is not None:
        if k >= len(v.items):
            raise RustPanic('removal index out of bounds', tuple(it.callstack))
        if info['method'] == 'remove':
            return v.items.pop(k)
        x = v.items[k]
        v.items[k] = v.items[-1]
        v.items.pop()
        return x
    raise Unsupported('Vec::remove')


@model('Vec::retain')
def _(it, a, info):
    v = deref(it, a[0])
    if not isinstance(v, VecObj):
        raise Unsupported('retain on bytes')
    keep = []
    for x in v.items:
        c = Cell(x)
        if it.ctx.branch(it.call_callable(a[1], [Ref(c)])):
            keep.append(x)
        else:
            it.drop_value(x)
    v.items[:] = keep
    return unit()


@model('Vec::extend', 'Extend::extend')
def _(it, a, info):
    v = deref(it, a[0])
    src = a[1]
    if isinstance(v, Buf):
        buf_append(it, v, as_slice(it, src))
        return unit()
    cell = Cell(src)
    while True:
        x = iter_next(it, Ref(cell))
        if x.variant == 'None':
            return unit()
        v.items.append(x.fields[0])


@model('Vec::append')
def _(it, a, info):
    v = deref(it, a[0])
    o = deref(it, a[1])
    if isinstance(v, Buf):
        buf_append(it, v, whole(o))
        o.len = bv(0)
    else:
        v.items += o.items
        o.items = []
    return unit()


@model('Vec::into_boxed_slice', 'Vec::shrink_to_fit', 'Vec::reserve', 'String::reserve', 'Vec::reserve_exact')
def _(it, a, info):
    if info['method'] in ('reserve', 'reserve_exact'):
        hook = it.ctx.data.get('alloc_hook')
        if hook:
            hook(it, a[1], 'reserve')
        it.ctx.event('alloc', info['method'], a[1], tuple(it.callstack))
        return unit()
    if info['method'] == 'shrink_to_fit':
        return unit()
    return a[0]


@model('Iterator::count')
def _(it, a, info):
    n = 0
    cell = Cell(a[0])
    while True:
        x = iter_next(it, Ref(cell))
        if x.variant == 'None':
            return bv(n)
        n += 1


@model('Iterator::rev', 'Iterator::enumerate', 'Iterator::skip', 'Iterator::take', 'Iterator::peekable', 'Iterator::by_ref',
       'Iterator::cloned', 'Iterator::copied', 'Iterator::take_while', 'Iterator::skip_while', 'Iterator::chain', 'Iterator::zip')
def _(it, a, info):
    m = info['method']
    if m == 'by_ref':
        return a[0]
    if m in ('cloned', 'copied'):
        return Opaque('Adapter', inner=a[0], f=None, how='deref')
    raise Unsupported('iterator adapter ' + m)


@model('Iterator::last', 'Iterator::nth', 'Iterator::fold', 'Iterator::for_each', 'Iterator::max', 'Iterator::min', 'Iterator::sum')
def _(it, a, info):
    m = info['method']
    cell = Cell(a[0])
    if m == 'last':
        last = NONE()
        while True:
            x = iter_next(it, Ref(cell))
            if x.variant == 'None':
                return last
            last = x
    if m == 'nth':
        k = conc(a[1])
        if k is None:
            raise Unsupported('nth symbolic')
        for _ in range(k):
            x = iter_next(it, Ref(cell))
            if x.variant == 'None':
                return x
        return iter_next(it, Ref(cell))
    if m == 'for_each':
        while True:
            x = iter_next(it, Ref(cell))
            if x.variant == 'None':
                return unit()
            it.call_callable(a[1], [x.fields[0]])
    if m == 'fold':
        acc = a[1]
        while True:
            x = iter_next(it, Ref(cell))
            if x.variant == 'None':
                return acc
            acc = it.call_callable(a[2], [acc, x.fields[0]])
    raise Unsupported('Iterator::' + m)


@model('String::from_utf8', 'str::from_utf8')
def _(it, a, info):
    v = a[0]
    s = as_slice(it, v)
    # ASCII-only model: valid UTF-8 iff every byte < 0x80 (multi-byte sequences are outside the modelled inputs and are
    # treated as invalid, which is conservative for parsers that then reject the input)
    ok = z3.simplify(all_in(s, lambda c: z3.ULT(c, 128)))
    if it.ctx.branch(ok):
        if isinstance(v, Buf):
            return Ok(Buf(v.arr, v.len, v.maxlen, 'String'))
        return Ok(s)
    return Err(Struct('FromUtf8Error', [v]))


# ------------------------------------------------------------------------------ hex formatting, slice copies (chunked_transfer::Encoder)

class HexStr(Opaque):
    def __init__(self, val, upper=False):
        Opaque.__init__(self, 'HexStr')
        self.val = val
        self.upper = upper


@model('Argument::new_lower_hex', 'Argument::new_upper_hex', 'rt::Argument::new_lower_hex', 'rt::Argument::new_upper_hex')
def _(it, a, info):
    return Opaque('FmtArg', value=a[0], how=info['method'])


_render_display_plain = render_display


def render_display(it, v, how='new_display'):
    if how in ('new_lower_hex', 'new_upper_hex'):
        x = deref(it, v)
        c = conc(x)
        if c is not None:
            t = ('%X' if how == 'new_upper_hex' else '%x') % c
            return [whole(Buf.from_bytes(t.encode()), True)]
        return [HexStr(x, how == 'new_upper_hex')]
    return _render_display_plain(it, v)


def _arguments_new(it, a, info):
    tpl = as_slice(it, a[0]).concrete()
    argv = deref(it, a[1])
    if isinstance(argv, ListSlice):
        argl = argv.vec.items[argv.start:argv.end]
    elif isinstance(argv, Struct):
        argl = argv.fields
    else:
        raise Unsupported('fmt args %r' % (argv,))
    pieces = []
    i = 0
    k = 0
    while i < len(tpl):
        c = tpl[i]
        if c == 0:
            break
        if c < 0x80:
            pieces.append(whole(Buf.from_bytes(tpl[i + 1:i + 1 + c]), True))
            i += 1 + c
        elif c == 0xc0:
            arg = argl[k]
            pieces.extend(render_display(it, arg.value, getattr(arg, 'how', 'new_display')))
            k += 1
            i += 1
        else:
            raise Unsupported('fmt template opcode 0x%02x' % c)
    return FmtArgs(pieces)


MODELS['Arguments::new'] = _arguments_new


@model('slice::clone_from_slice', 'slice::copy_from_slice')
def _(it, a, info):
    dst = as_slice(it, a[0])
    src = as_slice(it, a[1])
    if not it.ctx.branch(dst.len == src.len):
        raise RustPanic('source slice length does not match destination slice length', tuple(it.callstack))
    copy_bytes(it, dst, src, src.len)
    return unit()


@model('slice::fill')
def _(it, a, info):
    dst = as_slice(it, a[0])
    n = conc(dst.len)
    if n is None or n > 4096:
        raise Unsupported('fill of symbolic length')
    for i in range(n):
        dst.buf.arr = z3.Store(dst.buf.arr, dst.off + i, a[1])
    return unit()


@model('f32::is_finite', 'f32::is_nan', 'f32::is_infinite', 'f32::is_sign_negative')
def _(it, a, info):
    x = deref(it, a[0])
    m = info['method']
    if m == 'is_finite':
        return z3.BoolVal(x.cls == 'fin')
    if m == 'is_nan':
        return z3.BoolVal(x.cls == 'nan')
    if m == 'is_infinite':
        return z3.BoolVal(x.cls in ('inf', 'ninf'))
    if x.cls == 'fin':
        return z3.simplify(x.milli < 0)
    return z3.BoolVal(x.cls == 'ninf')


# ------------------------------------------------------------------------------ closures through Fn traits, Read::take, Duration extras, panicking

@model('Fn::call', 'FnMut::call_mut', 'FnOnce::call_once')
def _fn_call(it, a, info):
    f = a[0]
    args = a[1].fields if (len(a) > 1 and isinstance(a[1], Struct)) else list(a[1:])
    return it.call_callable(f, list(args))


@model('thread::panicking', 'panicking')
def _(it, a, info):
    return z3.BoolVal(bool(it.ctx.data.get('panicking', False)))


class TakeObj(Opaque):
    def __init__(self, inner, limit):
        Opaque.__init__(self, 'Take')
        self.inner = inner
        self.limit = limit

    def read(self, it, buf):
        if it.ctx.branch(self.limit == 0):
            return Ok(bv(0))
        n = z3.simplify(z3.If(z3.ULT(buf.len, self.limit), buf.len, self.limit))
        r = reader_read(it, self.inner, sub(buf, bv(0), n))
        if r.variant == 'Ok':
            self.limit = z3.simplify(self.limit - r.fields[0])
        return r


@model('Read::take')
def _(it, a, info):
    inner = a[0]
    if not isinstance(inner, Ref):
        inner = Ref(Cell(inner), (), True)
    return TakeObj(inner, a[1])


@model('Duration::saturating_sub', 'Duration::checked_sub', 'Duration::checked_add', 'Duration::saturating_add',
       'Duration::is_zero', 'Duration::as_nanos', 'Duration::as_micros', 'Duration::subsec_millis', 'Duration::subsec_micros',
       'Duration::from_micros', 'Duration::min', 'Duration::max', 'Duration::abs_diff')
def _(it, a, info):
    m = info['method']
    x = dur_ns(deref(it, a[0])) if isinstance(deref(it, a[0]), Struct) else a[0]
    S = z3.simplify
    if m == 'is_zero':
        return S(x == 0)
    if m == 'as_nanos':
        return S(z3.ZeroExt(64, x))
    if m == 'as_micros':
        return S(z3.ZeroExt(64, z3.UDiv(x, bv(1000))))
    if m == 'from_micros':
        return duration_ns(S(a[0] * bv(1000)))
    if m in ('subsec_millis', 'subsec_micros'):
        r = it.ctx.fresh_bv('ns_r')
        q = it.ctx.fresh_bv('ns_q')
        it.ctx.add(z3.And(z3.ULT(r, bv(NS)), z3.ULE(q, bv(1 << 34)), q * bv(NS) + r == x))
        return S(z3.Extract(31, 0, z3.UDiv(r, bv(1000000 if m == 'subsec_millis' else 1000))))
    y = dur_ns(deref(it, a[1]))
    if m == 'saturating_sub':
        return duration_ns(S(z3.If(z3.ULT(x, y), bv(0), x - y)))
    if m == 'checked_sub':
        if it.ctx.branch(z3.ULT(x, y)):
            return NONE()
        return Some(duration_ns(S(x - y)))
    if m in ('checked_add', 'saturating_add'):
        r = S(x + y)
        if m == 'checked_add':
            return Some(duration_ns(r))
        return duration_ns(r)
    if m == 'min':
        return duration_ns(S(z3.If(z3.ULT(x, y), x, y)))
    if m == 'max':
        return duration_ns(S(z3.If(z3.ULT(x, y), y, x)))
    if m == 'abs_diff':
        return duration_ns(S(z3.If(z3.ULT(x, y), y - x, x - y)))
    raise Unsupported('Duration::' + m)



@model('RangeInclusive::new')
def _(it, a, info):
    return Struct('RangeInclusive', [a[0], a[1]])


@model('RangeInclusive::contains', 'Range::contains', 'RangeFrom::contains', 'RangeTo::contains', 'RangeToInclusive::contains')
def _(it, a, info):
    r = deref(it, a[0])
    x = deref(it, a[1])
    ty = r.ty
    S = z3.simplify
    if ty == 'RangeInclusive':
        return S(z3.And(z3.ULE(r.fields[0], x), z3.ULE(x, r.fields[1])))
    if ty == 'Range':
        return S(z3.And(z3.ULE(r.fields[0], x), z3.ULT(x, r.fields[1])))
    if ty == 'RangeFrom':
        return S(z3.ULE(r.fields[0], x))
    if ty == 'RangeTo':
        return S(z3.ULT(x, r.fields[0]))
    if ty == 'RangeToInclusive':
        return S(z3.ULE(x, r.fields[0]))
    raise Unsupported('contains on ' + ty)
