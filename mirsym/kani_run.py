"""Second engine: Kani (CBMC) proof harnesses of /verif/kani over the public scalar kernels, built in a scratch directory against a
copy of the tree under check. A failing harness is replayed natively through Kani's concrete playback (the generated unit test is
run against the real build) before it is reported."""
import os, re, shutil, subprocess, time
from . import load
from .report import Violation

KANI_SRC = os.path.join(os.path.dirname(os.path.dirname(os.path.abspath(__file__))), 'kani')


def _prepare(L):
    work = getattr(L, 'work', None)
    scratch = getattr(L, 'scratch', None)
    if work is None or not os.path.isdir(work):
        scratch = load.make_scratch('verif.kani.')
        work = os.path.join(scratch, 'repo')
        os.makedirs(work)
        load.copy_repo(work)
    d = os.path.join(scratch, 'kani')
    if os.path.isdir(d):
        shutil.rmtree(d)
    shutil.copytree(KANI_SRC, d)
    with open(os.path.join(d, 'Cargo.toml.in')) as fh:
        t = fh.read().replace('@REPO@', work)
    with open(os.path.join(d, 'Cargo.toml'), 'w') as fh:
        fh.write(t)
    lock = os.path.join(work, 'Cargo.lock')
    if os.path.exists(lock):
        shutil.copy(lock, os.path.join(d, 'Cargo.lock'))
    return d


def _run(cmd, cwd, timeout):
    env = load.cargo_env()
    env.pop('CARGO_TARGET_DIR', None)
    env.pop('RUSTUP_TOOLCHAIN', None)
    t0 = time.time()
    try:
        p = subprocess.run(cmd, cwd=cwd, env=env, stdout=subprocess.PIPE, stderr=subprocess.STDOUT, text=True, timeout=timeout)
        return p.returncode, p.stdout, time.time() - t0
    except subprocess.TimeoutExpired as e:
        return None, (e.stdout or '') if isinstance(e.stdout, str) else '', time.time() - t0


def parse(out):
    """{harness: 'SUCCESSFUL' | 'FAILED' | other}"""
    res = {}
    cur = None
    for line in out.split('\n'):
        m = re.match(r'^Checking harness (\S+?)\.\.\.', line)
        if m:
            cur = m.group(1)
            continue
        m = re.match(r'^VERIFICATION:- (\w+)', line)
        if m and cur:
            res[cur] = m.group(1)
            cur = None
    return res


def run(L, rep, prop, expect, timeout=900):
    """expect: {harness name (without the module path): 'holds' | 'witness'}; witness harnesses end in assert!(false) and must
    FAIL (reachability / non-vacuity)"""
    if os.environ.get('VERIF_NO_KANI') == '1':
        rep.notes.append('Kani cross-check skipped (VERIF_NO_KANI=1)')
        return
    if shutil.which('cargo-kani') is None and shutil.which('kani') is None:
        rep.inconc('kani: cargo-kani not found')
        return
    d = _prepare(L)
    rc, out, secs = _run(['cargo', 'kani', '--output-format', 'terse'], d, timeout)
    rep.solver_seconds += secs
    res = parse(out)
    rep.bounds['kani'] = {'engine': 'Kani 0.68 / CBMC (cadical)', 'harnesses': sorted(expect), 'unwinding': 'none needed (loop-free kernels)',
                          'seconds': round(secs, 1)}
    if rc is None or not res:
        rep.inconc('kani: no verdicts (%s): %s' % ('timeout' if rc is None else 'rc=%s' % rc, out[-300:].replace('\n', ' | ')))
        return
    for h, want in sorted(expect.items()):
        full = 'kani/' + h
        got = [v for k, v in res.items() if k.split('::')[-1] == h]
        rep.queries += 1
        if not got:
            rep.obligation(full, 'inconclusive')
            rep.inconc(full + ': harness not run')
            continue
        rep.functions.add('kani harness ' + h)
        if want == 'witness':
            rep.obligation(full, 'holds' if got[0] == 'FAILED' else 'inconclusive', solver='witness: ' + got[0])
            if got[0] != 'FAILED':
                rep.inconc(full + ': the reachability witness did not fail (%s): vacuity guard' % got[0])
            continue
        if got[0] == 'SUCCESSFUL':
            rep.obligation(full, 'unsat', engine='kani')
            continue
        if got[0] != 'FAILED':
            rep.obligation(full, 'unknown', solver=got[0])
            rep.inconc(full + ': Kani returned ' + got[0])
            continue
        rep.obligation(full, 'sat', engine='kani')
        v = Violation(prop, None, '%s: Kani found a counterexample' % full, {'kind': 'kani', 'harness': h}, full)
        # concrete playback: generate the unit test in place and run it natively against the real build
        rc2, out2, s2 = _run(['cargo', 'kani', '-Z', 'concrete-playback', '--concrete-playback=inplace', '--harness', h, '--output-format', 'terse'], d, timeout)
        rc3, out3, s3 = _run(['cargo', 'kani', 'playback', '-Z', 'concrete-playback', '--', 'kani_concrete_playback'], d, timeout)
        rep.solver_seconds += s2
        m = re.search(r'(concrete_vals[^\n]*\n(?:.*\n){0,40}?\s*\];)', out2) or re.search(r'(let concrete_vals[\s\S]{0,1500}?\];)', open(os.path.join(d, 'src', 'lib.rs')).read())
        v.scenario['concrete_values'] = m.group(1)[:1500] if m else None
        failed_natively = rc3 not in (0, None) and re.search(r'test result: FAILED|panicked at', out3 or '') is not None
        v.scenario['playback_tail'] = (out3 or '')[-600:]
        v.reproduced = True if failed_natively else (False if rc3 == 0 else None)
        v.replay_note = 'Kani concrete playback: the generated test fails against the real build' if failed_natively else \
            'Kani concrete playback did not fail natively (rc=%s)' % rc3
        rep.replays += 1
        rep.violation(v)
