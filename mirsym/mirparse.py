"""Parser for rustc's textual MIR (-Zunpretty=mir), as emitted by the pinned nightly.

Produces Function objects: locals with types, basic blocks with statements and a terminator.
Anything the parser does not recognise is kept as an ('unparsed', text) node so that the
interpreter reports it as an unsupported construct (exit 2) instead of guessing.
"""
import re, os

# ----------------------------------------------------------------------------- helpers

OPEN = {'(': ')', '[': ']', '{': '}', '<': '>'}
CLOSE = {v: k for k, v in OPEN.items()}


def _skip_string(s, i):
    """s[i] is a quote char (\" or '); return index after the closing quote."""
    q = s[i]
    j = i + 1
    n = len(s)
    while j < n:
        c = s[j]
        if c == '\\':
            j += 2
            continue
        if c == q:
            return j + 1
        j += 1
    return n


def _is_char_lit(s, i):
    # distinguish a char literal 'x' / '\n' / '\u{..}' from a lifetime 'a / '_
    if s[i] != "'":
        return False
    if i + 2 < len(s) and s[i + 1] != '\\' and s[i + 2] == "'":
        return True
    if i + 1 < len(s) and s[i + 1] == '\\':
        return True
    return False


def split_top(s, sep=','):
    """Split on sep at nesting depth 0 (respecting brackets, string and char literals)."""
    out = []
    depth = 0
    i = 0
    n = len(s)
    start = 0
    while i < n:
        c = s[i]
        if c == '"':
            i = _skip_string(s, i)
            continue
        if c == "'" and _is_char_lit(s, i):
            i = _skip_string(s, i)
            continue
        if c in '([{':
            depth += 1
        elif c in ')]}':
            depth -= 1
        elif c == '<':
            # generic bracket unless it is a comparison (never in MIR text) ; '<' after ' ' and before ' ' is unlikely
            depth += 1
        elif c == '>':
            if i > 0 and s[i - 1] in '-=':
                pass
            else:
                depth -= 1
        elif depth == 0 and s.startswith(sep, i):
            out.append(s[start:i].strip())
            i += len(sep)
            start = i
            continue
        i += 1
    last = s[start:].strip()
    if last or out:
        out.append(last)
    return out


def find_matching(s, i):
    """s[i] is an opening bracket; return index of the matching closing bracket."""
    depth = 0
    n = len(s)
    j = i
    while j < n:
        c = s[j]
        if c == '"':
            j = _skip_string(s, j)
            continue
        if c == "'" and _is_char_lit(s, j):
            j = _skip_string(s, j)
            continue
        if c in '([{':
            depth += 1
        elif c in ')]}':
            depth -= 1
            if depth == 0:
                return j
        elif c == '<':
            depth += 1
        elif c == '>':
            if not (j > 0 and s[j - 1] in '-='):
                depth -= 1
                if depth == 0:
                    return j
        j += 1
    raise ValueError('unbalanced: ' + s[i:i + 80])


def strip_generics(path):
    """Remove ::<...> and <...> generic argument lists from a path (not the leading <T as Trait>)."""
    out = []
    i = 0
    n = len(path)
    while i < n:
        c = path[i]
        if c == '<':
            j = find_matching(path, i)
            # drop a preceding '::'
            if out[-2:] == [':', ':']:
                out = out[:-2]
            i = j + 1
            continue
        out.append(c)
        i += 1
    return ''.join(out)


# ----------------------------------------------------------------------------- AST

class Place:
    __slots__ = ('local', 'proj')

    def __init__(self, local, proj=()):
        self.local = local
        self.proj = tuple(proj)

    def __repr__(self):
        return 'Place(_%d%s)' % (self.local, ''.join('.' + str(p) for p in self.proj))


# projection elements: ('deref',) ('field', idx, type) ('downcast', variant) ('index', local)
# ('cindex', idx, minlen, from_end) ('subslice', a, b, from_end)


class Function:
    def __init__(self, name, args, ret):
        self.name = name            # full name as printed
        self.args = args            # list of (local idx, type)
        self.ret = ret
        self.locals = {}            # idx -> type string
        self.blocks = {}            # idx -> (stmts, term, cleanup)
        self.debug = {}             # debug name -> text
        self.text_lines = []
        self.kind = 'fn'            # fn | const | static
        self.first_line = 0

    def __repr__(self):
        return '<Function %s>' % self.name


_re_local = re.compile(r'^_(\d+)')


def parse_place(s):
    s = s.strip()
    p, rest = _parse_place_prefix(s)
    if rest.strip():
        raise ValueError('trailing in place: %r of %r' % (rest, s))
    return p


def _parse_place_prefix(s):
    s = s.lstrip()
    if s.startswith('_'):
        m = _re_local.match(s)
        if not m:
            raise ValueError('bad place ' + s)
        base = Place(int(m.group(1)))
        rest = s[m.end():]
    elif s.startswith('('):
        j = find_matching(s, 0)
        inner = s[1:j].strip()
        rest = s[j + 1:]
        if inner.startswith('*'):
            p = parse_place(inner[1:])
            base = Place(p.local, p.proj + (('deref',),))
        else:
            # (P.N: T)   or (P as Variant)
            p, r2 = _parse_place_prefix(inner)
            r2 = r2.strip()
            if r2.startswith('as '):
                base = Place(p.local, p.proj + (('downcast', r2[3:].strip()),))
            elif r2.startswith('.'):
                m = re.match(r'^\.(\d+)\s*:\s*(.*)$', r2, re.S)
                if not m:
                    raise ValueError('bad field proj ' + s)
                base = Place(p.local, p.proj + (('field', int(m.group(1)), m.group(2).strip()),))
            else:
                raise ValueError('bad paren place ' + s)
    else:
        raise ValueError('bad place ' + s)
    # postfix [..]
    while rest.startswith('['):
        j = find_matching(rest, 0)
        inner = rest[1:j].strip()
        rest = rest[j + 1:]
        m = re.match(r'^_(\d+)$', inner)
        if m:
            base = Place(base.local, base.proj + (('index', int(m.group(1))),))
            continue
        m = re.match(r'^(-?)(\d+) of (\d+)$', inner)
        if m:
            base = Place(base.local, base.proj + (('cindex', int(m.group(2)), int(m.group(3)), m.group(1) == '-'),))
            continue
        m = re.match(r'^(\d+):(-?)(\d*)$', inner)
        if m:
            base = Place(base.local, base.proj + (('subslice', int(m.group(1)), int(m.group(3) or 0), m.group(2) == '-'),))
            continue
        raise ValueError('bad index proj ' + inner)
    return base, rest


def parse_const(s):
    """s is the text after 'const '. returns ('const', kind, payload, type)"""
    s = s.strip()
    if s == 'true':
        return ('const', 'bool', True, 'bool')
    if s == 'false':
        return ('const', 'bool', False, 'bool')
    if s == '()':
        return ('const', 'unit', None, '()')
    m = re.match(r'^(-?\d+)_(u8|u16|u32|u64|u128|usize|i8|i16|i32|i64|i128|isize)$', s)
    if m:
        return ('const', 'int', int(m.group(1)), m.group(2))
    m = re.match(r'^(-?[0-9.eE+-]+|NaN|inf|-inf)(f32|f64)$', s)
    if m:
        return ('const', 'float', m.group(1), m.group(2))
    if s.startswith('"'):
        j = _skip_string(s, 0)
        return ('const', 'str', _unescape(s[1:j - 1]).encode('utf-8'), '&str')
    if s.startswith('b"'):
        j = _skip_string(s, 1)
        return ('const', 'bytes', _unescape_bytes(s[2:j - 1]), '&[u8]')
    if s.startswith("'"):
        j = _skip_string(s, 0)
        return ('const', 'char', ord(_unescape(s[1:j - 1])), 'char')
    if s.startswith("b'"):
        j = _skip_string(s, 1)
        return ('const', 'int', _unescape_bytes(s[2:j - 1])[0], 'u8')
    m = re.match(r'^ZeroSized: (.*)$', s, re.S)
    if m:
        return ('const', 'zst', m.group(1).strip(), m.group(1).strip())
    m = re.match(r'^\{(alloc\d+): (.*)\}$', s, re.S)
    if m:
        return ('const', 'alloc', m.group(1), m.group(2).strip())
    return ('const', 'path', s, None)


def _unescape(t):
    out = []
    i = 0
    while i < len(t):
        c = t[i]
        if c == '\\':
            d = t[i + 1]
            if d == 'n': out.append('\n'); i += 2
            elif d == 'r': out.append('\r'); i += 2
            elif d == 't': out.append('\t'); i += 2
            elif d == '0': out.append('\0'); i += 2
            elif d == '\\': out.append('\\'); i += 2
            elif d == '"': out.append('"'); i += 2
            elif d == "'": out.append("'"); i += 2
            elif d == 'x': out.append(chr(int(t[i + 2:i + 4], 16))); i += 4
            elif d == 'u':
                j = t.index('}', i)
                out.append(chr(int(t[i + 3:j], 16))); i = j + 1
            else:
                out.append(d); i += 2
        else:
            out.append(c); i += 1
    return ''.join(out)


def _unescape_bytes(t):
    u = _unescape(t)
    return bytes(ord(c) & 0xff for c in u)


def parse_operand(s):
    s = s.strip()
    if s.startswith('no_retag '):
        s = s[len('no_retag '):].strip()
    if s.startswith('copy '):
        return ('copy', parse_place(s[5:]))
    if s.startswith('move '):
        return ('move', parse_place(s[5:]))
    if s.startswith('const '):
        return parse_const(s[6:])
    # bare path: a function item / unit-like constant passed by value
    return ('const', 'path', s, None)


BINOPS = {'Add', 'Sub', 'Mul', 'Div', 'Rem', 'BitXor', 'BitAnd', 'BitOr', 'Shl', 'Shr', 'Eq', 'Lt', 'Le', 'Ne', 'Ge',
          'Gt', 'Cmp', 'Offset', 'AddWithOverflow', 'SubWithOverflow', 'MulWithOverflow', 'AddUnchecked',
          'SubUnchecked', 'MulUnchecked', 'ShlUnchecked', 'ShrUnchecked'}
UNOPS = {'Not', 'Neg', 'PtrMetadata'}


def parse_rvalue(s):
    s = s.strip()
    # references
    if s.startswith('&mut '):
        return ('ref', True, parse_place(s[5:]))
    if s.startswith('&raw '):
        return ('unparsed', s)
    if s.startswith('&') and not s.startswith('&&'):
        t = s[1:].strip()
        if t.startswith('(') or t.startswith('_'):
            try:
                return ('ref', False, parse_place(t))
            except ValueError:
                pass
    if s.startswith('discriminant('):
        j = find_matching(s, len('discriminant'))
        return ('discriminant', parse_place(s[len('discriminant') + 1:j]))
    if s.startswith('Len('):
        j = find_matching(s, 3)
        return ('len', parse_place(s[4:j]))
    if s.startswith('CopyForDeref('):
        j = find_matching(s, len('CopyForDeref'))
        return ('use', ('copy', parse_place(s[len('CopyForDeref') + 1:j])))
    m = re.match(r'^([A-Za-z]+)\(', s)
    if m and m.group(1) in BINOPS:
        j = find_matching(s, m.end() - 1)
        if j == len(s) - 1:
            a, b = split_top(s[m.end():j])
            return ('binop', m.group(1), parse_operand(a), parse_operand(b))
    if m and m.group(1) in UNOPS:
        j = find_matching(s, m.end() - 1)
        if j == len(s) - 1:
            return ('unop', m.group(1), parse_operand(s[m.end():j]))
    # casts:  OPERAND as TYPE (Kind)
    if (s.startswith('copy ') or s.startswith('move ') or s.startswith('const ')) and s.endswith(')'):
        parts = _split_as(s)
        if parts:
            opnd, ty, kind = parts
            return ('cast', parse_operand(opnd), ty, kind)
    if s.startswith('copy ') or s.startswith('move ') or s.startswith('const ') or s.startswith('no_retag '):
        return ('use', parse_operand(s))
    # tuple
    if s.startswith('('):
        j = find_matching(s, 0)
        if j == len(s) - 1:
            inner = s[1:j].strip()
            if inner.endswith(','):
                inner = inner[:-1]
            items = split_top(inner) if inner else []
            return ('tuple', [parse_operand(x) for x in items])
    # array / repeat
    if s.startswith('['):
        j = find_matching(s, 0)
        if j == len(s) - 1:
            inner = s[1:j].strip()
            semi = split_top(inner, ';')
            if len(semi) == 2:
                return ('repeat', parse_operand(semi[0]), semi[1].strip())
            items = split_top(inner) if inner else []
            return ('array', [parse_operand(x) for x in items])
    # closure aggregate  {closure@...} { a: move _1 }   or  {closure@...}
    if s.startswith('{closure@') or s.startswith('{coroutine@'):
        j = find_matching(s, 0)
        ty = s[:j + 1]
        rest = s[j + 1:].strip()
        fields = []
        if rest.startswith('{'):
            k = find_matching(rest, 0)
            inner = rest[1:k].strip()
            for item in (split_top(inner) if inner else []):
                nm, _, val = item.partition(':')
                fields.append((nm.strip(), parse_operand(val)))
        return ('closure', ty, fields)
    # struct aggregate  Path { f: op, .. }    (Path may have generics)
    if s.endswith('}'):
        # find the top-level ' {' that starts the field list
        idx = _find_top_brace(s)
        if idx is not None:
            path = s[:idx].strip()
            inner = s[idx + 1:-1].strip()
            fields = []
            for item in (split_top(inner) if inner else []):
                nm, _, val = item.partition(':')
                fields.append((nm.strip(), parse_operand(val)))
            return ('adt', path, 'struct', fields)
    # tuple-like ADT constructor  Path(ops)  or unit-like  Path
    if s.endswith(')'):
        idx = _find_top_paren(s)
        if idx is not None:
            path = s[:idx].strip()
            inner = s[idx + 1:-1].strip()
            items = split_top(inner) if inner else []
            return ('adt', path, 'tuple', [(str(i), parse_operand(x)) for i, x in enumerate(items)])
    if re.match(r'^[A-Za-z_<]', s):
        return ('adt', s, 'unit', [])
    return ('unparsed', s)


def _split_as(s):
    # find last top-level ' as ' ; the tail must be 'TYPE (Kind)'
    depth = 0
    i = 0
    pos = None
    n = len(s)
    while i < n:
        c = s[i]
        if c == '"':
            i = _skip_string(s, i); continue
        if c == "'" and _is_char_lit(s, i):
            i = _skip_string(s, i); continue
        if c in '([{':
            depth += 1
        elif c in ')]}':
            depth -= 1
        elif c == '<':
            depth += 1
        elif c == '>' and not (i > 0 and s[i - 1] in '-='):
            depth -= 1
        elif depth == 0 and s.startswith(' as ', i):
            pos = i
        i += 1
    if pos is None:
        return None
    tail = s[pos + 4:].strip()
    if not tail.endswith(')'):
        return None
    # kind is the last parenthesised group
    k = len(tail) - 1
    d = 0
    while k >= 0:
        if tail[k] == ')':
            d += 1
        elif tail[k] == '(':
            d -= 1
            if d == 0:
                break
        k -= 1
    kind = tail[k + 1:-1]
    ty = tail[:k].strip()
    return s[:pos], ty, kind


def _find_top_brace(s):
    depth = 0
    i = 0
    n = len(s)
    while i < n:
        c = s[i]
        if c == '"':
            i = _skip_string(s, i); continue
        if c in '([':
            depth += 1
        elif c in ')]':
            depth -= 1
        elif c == '<':
            depth += 1
        elif c == '>' and not (i > 0 and s[i - 1] in '-='):
            depth -= 1
        elif c == '{' and depth == 0:
            j = find_matching(s, i)
            if j == n - 1:
                return i
            i = j
        i += 1
    return None


def _find_top_paren(s):
    depth = 0
    i = 0
    n = len(s)
    while i < n:
        c = s[i]
        if c == '"':
            i = _skip_string(s, i); continue
        if c == '[' or c == '{':
            depth += 1
        elif c == ']' or c == '}':
            depth -= 1
        elif c == '<':
            depth += 1
        elif c == '>' and not (i > 0 and s[i - 1] in '-='):
            depth -= 1
        elif c == '(' and depth == 0:
            j = find_matching(s, i)
            if j == n - 1:
                return i
            i = j
        i += 1
    return None


_re_targets = re.compile(r'\[(.*)\]$')


def _parse_edges(s):
    """'[return: bb1, unwind: bb3]' | 'unwind continue' | 'bb5' -> dict"""
    s = s.strip()
    d = {}
    if s.startswith('['):
        inner = s[1:s.rindex(']')]
        for part in split_top(inner):
            k, _, v = part.partition(':')
            k = k.strip(); v = v.strip()
            if not _:
                # 'unwind continue' / 'unwind unreachable' / 'unwind terminate(..)'
                if k.startswith('unwind'):
                    d['unwind'] = k[6:].strip()
                continue
            d[k] = int(v[2:]) if v.startswith('bb') else v
    elif s.startswith('bb'):
        d['return'] = int(s[2:])
    elif s.startswith('unwind'):
        d['unwind'] = s[6:].strip()
    return d


def parse_terminator(line):
    s = line.strip()
    if s.endswith(';'):
        s = s[:-1]
    if s == 'return':
        return ('return',)
    if s == 'unreachable':
        return ('unreachable',)
    if s == 'resume':
        return ('resume',)
    if s.startswith('goto -> '):
        return ('goto', int(s[len('goto -> bb'):]))
    if s.startswith('switchInt('):
        j = find_matching(s, len('switchInt'))
        op = parse_operand(s[len('switchInt') + 1:j])
        rest = s[j + 1:].strip()
        assert rest.startswith('->')
        inner = rest[2:].strip()[1:-1]
        targets = []
        otherwise = None
        for part in split_top(inner):
            k, _, v = part.partition(':')
            k = k.strip(); v = v.strip()
            bb = int(v[2:])
            if k == 'otherwise':
                otherwise = bb
            else:
                kk = k
                m = re.match(r'^(-?\d+)', kk)
                targets.append((int(m.group(1)), bb))
        return ('switch', op, targets, otherwise)
    if s.startswith('drop('):
        j = find_matching(s, 4)
        pl = parse_place(s[5:j])
        edges = _parse_edges(s[j + 1:].strip()[2:])
        return ('drop', pl, edges)
    if s.startswith('assert('):
        j = find_matching(s, 6)
        args = split_top(s[7:j])
        cond = args[0].strip()
        expected = True
        if cond.startswith('!'):
            expected = False
            cond = cond[1:]
        edges = _parse_edges(s[j + 1:].strip()[2:])
        return ('assert', parse_operand(cond), expected, args[1] if len(args) > 1 else '', edges)
    # call:  [PLACE = ] CALLEE(ARGS) -> EDGES
    arrow = _find_call_arrow(s)
    if arrow is not None:
        head = s[:arrow].rstrip()
        edges = _parse_edges(s[arrow + 2:])
        dest = None
        # destination?
        m = re.match(r'^(\(.*?\)|_\d+)\s=\s', head) if head.startswith('_') else None
        eq = _find_top_assign(head)
        if eq is not None:
            dest = parse_place(head[:eq])
            head = head[eq + 3:].strip()
        assert head.endswith(')'), line
        # find the '(' matching the final ')'
        k = _open_of_last_paren(head)
        callee = head[:k].strip()
        argtxt = head[k + 1:-1].strip()
        args = [parse_operand(a) for a in split_top(argtxt)] if argtxt else []
        return ('call', dest, callee, args, edges)
    return ('unparsed', s)


def _find_top_assign(s):
    depth = 0
    i = 0
    n = len(s)
    while i < n:
        c = s[i]
        if c == '"':
            i = _skip_string(s, i); continue
        if c == "'" and _is_char_lit(s, i):
            i = _skip_string(s, i); continue
        if c in '([{':
            depth += 1
        elif c in ')]}':
            depth -= 1
        elif c == '<':
            depth += 1
        elif c == '>' and not (i > 0 and s[i - 1] in '-='):
            depth -= 1
        elif depth == 0 and s.startswith(' = ', i):
            return i
        i += 1
    return None


def _find_call_arrow(s):
    """index of the top-level '->' that separates a call from its edges (the last one at depth 0 preceded by ')')."""
    depth = 0
    i = 0
    n = len(s)
    pos = None
    while i < n:
        c = s[i]
        if c == '"':
            i = _skip_string(s, i); continue
        if c == "'" and _is_char_lit(s, i):
            i = _skip_string(s, i); continue
        if c in '([{':
            depth += 1
        elif c in ')]}':
            depth -= 1
            if depth == 0 and c == ')' and s.startswith(') -> ', i):
                pos = i + 2
        elif c == '<':
            depth += 1
        elif c == '>' and not (i > 0 and s[i - 1] in '-='):
            depth -= 1
        i += 1
    return pos


def _open_of_last_paren(s):
    # s ends with ')' ; walk forward keeping a stack to find its opener
    stack = []
    i = 0
    n = len(s)
    res = None
    while i < n:
        c = s[i]
        if c == '"':
            i = _skip_string(s, i); continue
        if c == "'" and _is_char_lit(s, i):
            i = _skip_string(s, i); continue
        if c in '([{':
            stack.append(i)
        elif c in ')]}':
            o = stack.pop()
            if i == n - 1:
                res = o
        elif c == '<':
            stack.append(i)
        elif c == '>' and not (i > 0 and s[i - 1] in '-='):
            stack.pop()
        i += 1
    return res


def parse_statement(line):
    s = line.strip()
    if s.endswith(';'):
        s = s[:-1]
    if s == 'nop':
        return ('nop',)
    for kw in ('StorageLive(', 'StorageDead(', 'PlaceMention(', 'FakeRead(', 'AscribeUserType(', 'Retag(',
               'ConstEvalCounter', 'Coverage::', 'BackwardIncompatibleDropHint('):
        if s.startswith(kw):
            return ('nop',)
    if s.startswith('Deinit(') or s.startswith('deinit('):
        return ('nop',)
    if s.startswith('assume('):
        return ('nop',)
    eq = _find_top_assign(s)
    if eq is None:
        return ('unparsed', s)
    try:
        pl = parse_place(s[:eq])
    except ValueError:
        return ('unparsed', s)
    try:
        rv = parse_rvalue(s[eq + 3:])
    except (ValueError, AssertionError) as e:
        return ('unparsed', s)
    return ('assign', pl, rv)


# ----------------------------------------------------------------------------- module

class Module:
    def __init__(self):
        self.functions = {}     # full name -> Function
        self.allocs = {}        # allocN -> bytes
        self.alloc_static = {}  # static name -> allocN
        self.order = []

    def by_suffix(self, suffix):
        return [f for n, f in self.functions.items() if n.endswith(suffix)]


_re_fn = re.compile(r'^(fn|const|static(?: mut)?) (.*)$')
_re_bb = re.compile(r'^\s*bb(\d+)( \(cleanup\))?: \{$')
_re_let = re.compile(r'^\s*let (mut )?_(\d+): (.*);$')
_re_alloc = re.compile(r'^(alloc\d+) \((?:static: ([A-Za-z0-9_:]+), )?size: (\d+), align: (\d+)\) \{')


def parse_header(kind, rest):
    """rest: 'NAME(ARGS) -> RET {'  for fn ; 'NAME: TYPE = {' for const/static"""
    rest = rest.rstrip()
    assert rest.endswith('{'), rest
    rest = rest[:-1].rstrip()
    if kind == 'fn':
        # find top-level '(' starting the argument list: it is the '(' matching the ')' before ' -> RET' or at end
        # Strategy: find last top-level ') -> ' ; else ends with ')'
        arrow = None
        depth = 0
        i = 0
        n = len(rest)
        while i < n:
            c = rest[i]
            if c in '([{':
                depth += 1
            elif c in ')]}':
                depth -= 1
                if depth == 0 and rest.startswith(') -> ', i) and arrow is None:
                    # first top-level ") -> " that closes the arg list: remember the earliest whose opener is the arg list
                    arrow = i
                    break
            elif c == '<':
                depth += 1
            elif c == '>' and not (i > 0 and rest[i - 1] in '-='):
                depth -= 1
            i += 1
        if arrow is not None:
            head = rest[:arrow + 1]
            ret = rest[arrow + 5:].strip()
        else:
            head = rest
            ret = '()'
        k = _open_of_last_paren(head)
        name = head[:k].strip()
        argtxt = head[k + 1:-1].strip()
        args = []
        for a in (split_top(argtxt) if argtxt else []):
            m = re.match(r'^_(\d+): (.*)$', a, re.S)
            args.append((int(m.group(1)), m.group(2).strip()))
        return name, args, ret
    else:
        assert rest.endswith('='), rest
        rest = rest[:-1].rstrip()
        # NAME: TYPE   (NAME may contain '::' and '<impl at a:b: c:d>' with colons!)
        # find the last top-level ': '
        depth = 0
        pos = None
        i = 0
        n = len(rest)
        while i < n:
            c = rest[i]
            if c in '([{':
                depth += 1
            elif c in ')]}':
                depth -= 1
            elif c == '<':
                depth += 1
            elif c == '>' and not (i > 0 and rest[i - 1] in '-='):
                depth -= 1
            elif depth == 0 and rest.startswith(': ', i) and pos is None:
                pos = i
            i += 1
        name = rest[:pos].strip()
        ty = rest[pos + 2:].strip()
        return name, [], ty


def parse_mir(text):
    mod = Module()
    lines = text.split('\n')
    i = 0
    n = len(lines)
    ctfe_next = False
    while i < n:
        line = lines[i]
        if line.startswith('// MIR FOR CTFE'):
            ctfe_next = True
            i += 1
            continue
        m = _re_alloc.match(line)
        if m:
            name = m.group(1)
            data = bytearray()
            relocs = False
            i += 1
            while i < n and not lines[i].startswith('}'):
                l = lines[i]
                # "    0x00 │ 04 00 .. │ ...."  or "    04 00 00 │ ...."
                body = l.split('│')
                hexpart = body[0] if len(body) >= 2 and not re.match(r'^\s*0x[0-9a-f]+\s*$', body[0]) else (body[1] if len(body) > 2 else '')
                for tok in hexpart.split():
                    if re.match(r'^[0-9a-f]{2}$', tok):
                        data.append(int(tok, 16))
                    elif tok.startswith('__') or tok.startswith('╾'):
                        relocs = True
                i += 1
            mod.allocs[name] = bytes(data)
            if m.group(2):
                mod.alloc_static[m.group(2)] = name
            i += 1
            continue
        mc = re.match(r'^const ([A-Za-z_][A-Za-z0-9_:]*): ([^=]+) = const (.*);$', line.rstrip())
        if mc:
            fn = Function(mc.group(1), [], mc.group(2).strip())
            fn.kind = 'const'
            fn.locals[0] = mc.group(2).strip()
            fn.blocks[0] = ([('assign', Place(0), ('use', parse_const(mc.group(3))))], ('return',), False, [line.strip()])
            if fn.name not in mod.functions:
                mod.functions[fn.name] = fn
                mod.order.append(fn.name)
            i += 1
            continue
        m = _re_fn.match(line)
        if m and line.rstrip().endswith('{'):
            kind = m.group(1).split()[0]
            try:
                name, args, ret = parse_header(kind, m.group(2))
            except Exception as e:
                raise ValueError('header parse failed at line %d: %s (%s)' % (i + 1, line, e))
            fn = Function(name, args, ret)
            fn.kind = kind
            fn.first_line = i + 1
            for a, t in args:
                fn.locals[a] = t
            fn.locals[0] = ret
            i += 1
            cur = None
            while i < n and lines[i] != '}':
                l = lines[i]
                mb = _re_bb.match(l)
                if mb:
                    cur = int(mb.group(1))
                    stmts = []
                    i += 1
                    while lines[i].strip() != '}':
                        # a statement may span lines (rare: string consts with newlines are escaped, so no)
                        stmts.append(lines[i])
                        i += 1
                    term_line = stmts.pop() if stmts else 'unreachable;'
                    fn.blocks[cur] = ([parse_statement(x) for x in stmts], parse_terminator(term_line),
                                      bool(mb.group(2)), [x.strip() for x in stmts] + [term_line.strip()])
                    i += 1
                    continue
                ml = _re_let.match(l)
                if ml:
                    fn.locals[int(ml.group(2))] = ml.group(3).strip()
                else:
                    md = re.match(r'^\s*debug (\S+) => (.*);$', l)
                    if md:
                        fn.debug[md.group(1)] = md.group(2)
                i += 1
            if not (ctfe_next and name in mod.functions):
                if name not in mod.functions:
                    mod.functions[name] = fn
                    mod.order.append(name)
            ctfe_next = False
            i += 1
            continue
        i += 1
    return mod


def unparsed_report(mod):
    out = []
    for name, fn in mod.functions.items():
        for bb, (stmts, term, cleanup, raw) in fn.blocks.items():
            for st in stmts:
                if st[0] == 'unparsed':
                    out.append((name, bb, st[1]))
                elif st[0] == 'assign' and st[2][0] == 'unparsed':
                    out.append((name, bb, st[2][1]))
            if term[0] == 'unparsed':
                out.append((name, bb, term[1]))
    return out


if __name__ == '__main__':
    import sys
    mod = parse_mir(open(sys.argv[1]).read())
    print(len(mod.functions), 'functions', len(mod.allocs), 'allocs')
    for r in unparsed_report(mod):
        print('UNPARSED', r)
