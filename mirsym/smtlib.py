"""Second solver: cvc5 on the SMT-LIB2 export of a query (used when z3's bit-blasting stalls on arithmetic, and for
cross-checking verdicts). `--solve-bv-as-int=sum` keeps the mod-2^k semantics but reasons over integers."""
import os, re, subprocess, tempfile, time
import z3

CVC5 = os.environ.get('VERIF_CVC5', 'cvc5')


def _consts(exprs):
    seen = set()
    out = {}
    todo = list(exprs)
    while todo:
        e = todo.pop()
        i = e.get_id()
        if i in seen:
            continue
        seen.add(i)
        if z3.is_const(e) and e.decl().kind() == z3.Z3_OP_UNINTERPRETED:
            out[e.decl().name()] = e
        todo.extend(e.children())
    return out


def cvc5_check(assertions, timeout_s=60, int_blast=True, want_model=True, scratch='/var/tmp'):
    """returns (verdict in {'sat','unsat','unknown'}, z3 model or None, seconds)"""
    s = z3.Solver()
    s.add(*assertions)
    txt = s.to_smt2()
    consts = _consts(assertions)
    names = [n for n, c in consts.items() if z3.is_bv(c) or z3.is_bool(c)]
    head = '(set-logic ALL)\n(set-option :produce-models true)\n' if want_model else '(set-logic ALL)\n'
    body = txt.replace('(check-sat)', '')
    tail = '(check-sat)\n'
    if want_model and names:
        tail += '(get-value (%s))\n' % ' '.join('|%s|' % n if not re.match(r'^[A-Za-z_][A-Za-z0-9_.!@:-]*$', n) else n for n in names)
    fd, path = tempfile.mkstemp(suffix='.smt2', dir=scratch, prefix='verif_q_')
    try:
        with os.fdopen(fd, 'w') as fh:
            fh.write(head + body + tail)
        cmd = [CVC5, '--lang', 'smt2', '--tlimit=%d' % int(timeout_s * 1000)]
        if int_blast:
            cmd.append('--solve-bv-as-int=sum')
        t0 = time.time()
        try:
            p = subprocess.run(cmd + [path], stdout=subprocess.PIPE, stderr=subprocess.PIPE, text=True, timeout=timeout_s + 10)
            out = p.stdout
        except subprocess.TimeoutExpired:
            return 'unknown', None, time.time() - t0
        dt = time.time() - t0
    finally:
        try:
            os.unlink(path)
        except OSError:
            pass
    first = out.strip().split('\n', 1)[0].strip() if out.strip() else ''
    if first == 'unsat':
        # (the get-value that follows an unsat answer produces an error line; anything else is suspicious)
        errs = [l for l in out.split('\n') if '(error' in l and 'cannot get value' not in l and 'Cannot get value' not in l]
        if errs:
            return 'unknown', None, dt
        return 'unsat', None, dt
    if '(error' in out:
        return 'unknown', None, dt
    if first != 'sat':
        return 'unknown', None, dt
    model = None
    if want_model:
        vals = {}
        for m in re.finditer(r'\(\s*(\|[^|]*\||[^\s()]+)\s+(#b[01]+|#x[0-9a-fA-F]+|true|false|\(_ bv(\d+) (\d+)\))\s*\)', out):
            n = m.group(1).strip('|')
            v = m.group(2)
            vals[n] = v
        s2 = z3.Solver()
        for n, v in vals.items():
            c = consts.get(n)
            if c is None:
                continue
            if v in ('true', 'false'):
                s2.add(c == (v == 'true'))
            elif v.startswith('#b'):
                s2.add(c == z3.BitVecVal(int(v[2:], 2), c.size()))
            elif v.startswith('#x'):
                s2.add(c == z3.BitVecVal(int(v[2:], 16), c.size()))
            else:
                mm = re.match(r'\(_ bv(\d+) (\d+)\)', v)
                s2.add(c == z3.BitVecVal(int(mm.group(1)), int(mm.group(2))))
        if s2.check() == z3.sat:
            model = s2.model()
    return 'sat', model, dt
