"""E-stream / E-sink: the socket as environment (DESIGN.md §2.4).

The boundary is std's TcpStream / UnixStream: everything above it (connection.rs, refined_tcp_stream.rs, client.rs, ...)
is executed from the MIR. BufReader / BufWriter are modelled as order-preserving pipes with arbitrary short reads.
"""
import z3
from .values import *
from .interp import Unsupported, RustPanic, Blocked, ERRORKINDS
from .models import (MODELS, model, deref, as_slice, io_error, copy_bytes, sub, reader_read, writer_write, DecStr, render_display,
                     buf_append)

CLIENT_GONE = ['BrokenPipe', 'ConnectionReset', 'ConnectionAborted']


class Wire:
    """one TCP connection as seen by the server: the client's byte stream and a log of what the server wrote / shut down"""

    def __init__(self, ctx, data, length, maxlen, end='eof', short_reads=True, name='wire'):
        self.ctx = ctx
        self.arr = data                 # z3 array of the client's bytes
        self.len = length if not isinstance(length, int) else bv(length)
        self.maxlen = maxlen
        self.buf = Buf(self.arr, self.len, maxlen, 'const')
        self.pos = bv(0)                # bytes consumed by the server
        self.end = end                  # 'eof' | ErrorKind name: what a read at the end of the data returns
        self.short_reads = short_reads
        self.short_budget = 3
        self.log = []                   # ('w', piece) ('flush',) ('shutdown', how, side) ('read', n)
        self.reads = 0
        self.read_limit = 4000
        self.write_fault_after = None   # number of successful socket writes before every write fails
        self.write_fault_kind = 'BrokenPipe'
        self.nwrites = 0
        self.gate = None                # optional callable(wire) -> bool: may the next read deliver data? (C18)
        self.unix = False
        self.peer_addr_fails = False
        self.shut_rd = False
        self.shut_wr = False
        self.options = []               # socket options set by the server: (name, value description)
        self.read_timeout = False       # a read timeout is in force: a pause of the client may end a read with WouldBlock
        self.pause_budget = 1

    def consumed(self):
        return self.pos

    def written_pieces(self):
        return [e[1] for e in self.log if e[0] == 'w']


class SockObj(Opaque):
    def __init__(self, wire, kind='TcpStream'):
        Opaque.__init__(self, kind)
        self.wire = wire

    def __repr__(self):
        return '<%s>' % self.kind

    # Read
    def read(self, it, buf):
        w = self.wire
        ctx = it.ctx
        w.reads += 1
        if w.reads > w.read_limit:
            if conc(z3.simplify(w.len - w.pos)) == 0:
                # the stream ended long ago and the code keeps reading: it never terminates
                raise Blocked('reads the ended socket forever (no progress after %d reads)' % w.read_limit, w)
            raise Unsupported('socket read bound exceeded')
        if w.shut_rd:
            return Ok(bv(0))
        if w.gate is not None:
            g = w.gate(w)
            if g == 'eof':
                return Ok(bv(0))
            if not g:
                raise Blocked('socket read: the client is withholding data', w)
        rem = z3.simplify(w.len - w.pos)
        if ctx.branch(rem == 0):
            if w.end == 'eof':
                return Ok(bv(0))
            if w.end == 'block':
                raise Blocked('socket read: no more data and the client keeps the connection open', w)
            return Err(io_error(w.end))
        blen = buf.len
        if ctx.branch(blen == 0):
            return Ok(bv(0))
        cap = z3.simplify(z3.If(z3.ULT(blen, rem), blen, rem))
        cc = conc(cap)
        if w.read_timeout and w.short_reads == 'choose' and w.pause_budget > 0 and len(w.log) and ctx.choose(2, 'pause') == 1:
            # the client pauses (between two segments) for longer than the read timeout the server has set on this socket
            w.pause_budget -= 1
            w.log.append(('pause',))
            return Err(io_error('WouldBlock'))
        if w.short_reads == 'choose' and cc is not None and cc > 1 and w.short_budget > 0:
            # enumerated segmentation: this read delivers 1, 3 or all available bytes (each a separate path)
            opts = [x for x in (1, 3) if x < cc]
            # segment boundaries that buffered code can tell apart from the others: between the CR and the LF of the next line
            # terminator, and right after the blank line that ends a head (a client that sends head and body separately)
            p0 = conc(w.pos)
            if p0 is not None:
                at = lambda j: conc(z3.simplify(z3.Select(w.buf.arr, bv(p0 + j))))
                lim = min(cc - 1, 200)
                for i in range(lim):
                    if at(i) == 13 and at(i + 1) == 10:
                        if i + 1 not in opts and i + 1 < cc:
                            opts.append(i + 1)
                        break
                for i in range(max(lim - 2, 0)):
                    if at(i) == 13 and at(i + 1) == 10 and at(i + 2) == 13 and at(i + 3) == 10:
                        if i + 4 < cc:
                            if 3 in opts:
                                opts.remove(3)
                            if i + 4 not in opts:
                                opts.append(i + 4)
                        break
            opts.append(cc)
            n = bv(opts[ctx.choose(len(opts), 'seg')])
            w.short_budget -= 1
        elif not w.short_reads or w.short_reads == 'choose' or cc == 1:
            n = cap
        else:
            n = ctx.fresh_bv('nread')
            ctx.add(z3.And(z3.UGE(n, 1), z3.ULE(n, cap)))
        if conc(w.pos) is None:
            from .harness import concretize
            w.pos = concretize(ctx, w.pos)
        copy_bytes(it, buf, Slice(w.buf, w.pos, n), n)
        w.pos = z3.simplify(w.pos + n)
        w.log.append(('read', n))
        return Ok(n)

    # Write
    def write(self, it, data):
        w = self.wire
        if w.write_fault_after is not None and w.nwrites >= w.write_fault_after:
            return Err(io_error(w.write_fault_kind))
        w.nwrites += 1
        if isinstance(data, (DecStr,)) or (isinstance(data, Opaque) and data.kind in ('HexStr',)):
            w.log.append(('w', data))
            return Ok(bv(1))
        s = as_slice(it, data)
        # snapshot (the buffer may be reused by the caller)
        snap = Slice(Buf(s.buf.arr, s.buf.len, s.buf.maxlen, 'const'), s.off, s.len, s.is_str)
        w.log.append(('w', snap))
        return Ok(s.len)

    def flush(self, it):
        w = self.wire
        if w.write_fault_after is not None and w.nwrites >= w.write_fault_after:
            return Err(io_error(w.write_fault_kind))
        w.log.append(('flush',))
        return Ok(unit())


@model('<TcpStream as Read>::read', '<UnixStream as Read>::read')
def _(it, a, info):
    return deref(it, a[0]).read(it, a[1])


@model('<TcpStream as Write>::write', '<UnixStream as Write>::write')
def _(it, a, info):
    return deref(it, a[0]).write(it, a[1])


@model('<TcpStream as Write>::flush', '<UnixStream as Write>::flush')
def _(it, a, info):
    return deref(it, a[0]).flush(it)


@model('TcpStream::try_clone', 'UnixStream::try_clone')
def _(it, a, info):
    s = deref(it, a[0])
    return Ok(SockObj(s.wire, s.kind))


@model('TcpStream::peer_addr')
def _(it, a, info):
    s = deref(it, a[0])
    if s.wire.peer_addr_fails:
        return Err(io_error('NotConnected'))
    return Ok(Opaque('SocketAddr', token=bv(0x7f000001)))


@model('TcpStream::set_read_timeout', 'UnixStream::set_read_timeout', 'TcpStream::set_write_timeout', 'UnixStream::set_write_timeout',
       'TcpStream::set_nonblocking', 'UnixStream::set_nonblocking', 'TcpStream::set_nodelay', 'TcpStream::set_ttl')
def _(it, a, info):
    s = a[0]
    n = 0
    while isinstance(s, Ref) and n < 8:
        s = it.read(s.root, s.path)
        n += 1
    v = a[1]
    desc = 'some' if (isinstance(v, Enum) and v.variant == 'Some') else ('none' if isinstance(v, Enum) else str(v))
    if isinstance(s, SockObj):
        s.wire.options.append((info['method'], desc))
    hook = it.ctx.data.get('sockopt_log')
    if hook is not None:
        hook.append((info['method'], desc))
    return Ok(unit())


@model('TcpStream::shutdown', 'UnixStream::shutdown')
def _(it, a, info):
    s = deref(it, a[0])
    how = a[1]
    w = s.wire
    w.log.append(('shutdown', how.variant))
    if how.variant in ('Read', 'Both'):
        w.shut_rd = True
    if how.variant in ('Write', 'Both'):
        w.shut_wr = True
    return Ok(unit())


@model('<SocketAddr as Clone>::clone')
def _(it, a, info):
    return deref(it, a[0])


# ------------------------------------------------------------------------------------------ BufReader / BufWriter

class BufReaderObj(Opaque):
    """std::io::BufReader. As long as the code only calls read(), it is an order-preserving pipe (whatever the inner reader
    delivers, possibly less than asked for). The first fill_buf() switches on the read-ahead buffer: one read of the inner
    reader of at most `cap` bytes fills it, fill_buf() returns what is left of it, consume(n) advances, and read() serves
    from it first -- the semantics of std's implementation that code can observe."""

    def __init__(self, inner, cap):
        Opaque.__init__(self, 'BufReader')
        self.inner = Cell(inner)
        self.cap = cap
        self.ibuf = None        # Buf holding the last fill
        self.ipos = 0           # consumed part of it
        self.ilen = 0           # filled part of it (concrete)

    def pending(self):
        return self.ibuf is not None and self.ipos < self.ilen

    def read(self, it, buf):
        if it.ctx.data.get('bufreader_mode') == 'buffered' and not self.pending():
            # std's BufReader::read: an empty buffer is refilled by ONE read of the inner reader of up to `cap` bytes, unless
            # the caller's buffer is at least that large (then the read goes straight through)
            bl = conc(buf.len)
            if bl is None or bl < (self.cap or 8192):
                r = self.fill_buf(it)
                if r.variant == 'Err':
                    return r
                if not self.pending():
                    return Ok(bv(0))
        if self.pending():
            rem = self.ilen - self.ipos
            bl = conc(buf.len)
            if bl is None:
                raise Unsupported('BufReader::read with a symbolic buffer length while read-ahead data is pending')
            n = min(rem, bl)
            from .models import copy_bytes
            copy_bytes(it, buf, Slice(self.ibuf, bv(self.ipos), bv(n)), bv(n))
            self.ipos += n
            return Ok(bv(n))
        return reader_read(it, Ref(self.inner, (), True), buf)

    def fill_buf(self, it):
        if not self.pending():
            cap = self.cap or 8192
            tmp = Buf(it.ctx.fresh_arr('fill'), cap, cap, 'array')
            res = reader_read(it, Ref(self.inner, (), True), whole(tmp))
            if res.variant == 'Err':
                return res
            n = res.fields[0]
            cn = conc(n)
            if cn is None:
                from .harness import concretize
                cn = conc(concretize(it.ctx, n))
            self.ibuf, self.ipos, self.ilen = tmp, 0, cn
        return Ok(Slice(self.ibuf, bv(self.ipos), bv(self.ilen - self.ipos)))

    def consume(self, it, n):
        cn = conc(n)
        if cn is None:
            from .harness import concretize
            cn = conc(concretize(it.ctx, n))
        self.ipos = min(self.ilen, self.ipos + cn)

    def buffer(self, it):
        if it.ctx.data.get('bufreader_mode') != 'buffered' and self.ibuf is None:
            # in the pipe abstraction nothing is ever read ahead: what buffer() shows would not be what std shows
            raise Unsupported('BufReader::buffer(): looking into the read-ahead buffer needs the buffered BufReader model (C13 uses it)')
        if not self.pending():
            return whole(Buf.from_bytes(b''))
        return Slice(self.ibuf, bv(self.ipos), bv(self.ilen - self.ipos))

    def on_drop(self, it, me):
        it.drop_value(self.inner.v)


class BufWriterObj(Opaque):
    def __init__(self, inner, cap):
        Opaque.__init__(self, 'BufWriter')
        self.inner = Cell(inner)
        self.cap = cap
        self.dropped = False

    def write(self, it, data):
        if isinstance(data, (DecStr,)) or (isinstance(data, Opaque) and data.kind == 'HexStr'):
            r = writer_write(it, Ref(self.inner, (), True), data)
            return r
        s = as_slice(it, data)
        r = writer_write(it, Ref(self.inner, (), True), s)
        return r

    def flush(self, it):
        return writer_write(it, Ref(self.inner, (), True), None, 'flush')

    def on_drop(self, it, me):
        if self.dropped:
            return
        self.dropped = True
        # BufWriter flushes on drop, ignoring errors
        try:
            writer_write(it, Ref(self.inner, (), True), None, 'flush')
        except Blocked:
            raise
        it.drop_value(self.inner.v)


@model('BufReader::with_capacity', 'BufReader::new')
def _(it, a, info):
    if info['method'] == 'new':
        return BufReaderObj(a[0], 8192)
    return BufReaderObj(a[1], conc(a[0]))


@model('BufWriter::with_capacity', 'BufWriter::new')
def _(it, a, info):
    if info['method'] == 'new':
        return BufWriterObj(a[0], 8192)
    return BufWriterObj(a[1], conc(a[0]))


# ------------------------------------------------------------------------------------------ helpers for harnesses

def find_fn(prog, selfty, method, trait=None):
    if trait:
        c = prog.traitm.get((trait, selfty, method))
    else:
        c = prog.inherent.get((selfty, method))
    if not c:
        raise Unsupported('%s::%s not found in the MIR' % (selfty, method))
    return c[0]


def new_client_connection(it, wire):
    """RefinedTcpStream::new(Connection::Tcp(sock)) -> ClientConnection::new(write, read), all from the MIR"""
    prog = it.prog
    sock = SockObj(wire, 'UnixStream' if wire.unix else 'TcpStream')
    conn = Enum('Connection', 'Unix' if wire.unix else 'Tcp', prog.variant_index('Connection', 'Unix' if wire.unix else 'Tcp'), [sock])
    f_new = find_fn(prog, 'RefinedTcpStream', 'new')
    pair = it.run_fn(f_new, [conn])
    rd, wr = pair.fields
    f_cc = find_fn(prog, 'ClientConnection', 'new')
    return it.run_fn(f_cc, [wr, rd])


def cc_next(it, cc_cell):
    f = find_fn(it.prog, 'ClientConnection', 'next', 'Iterator')
    return it.run_fn(f, [Ref(cc_cell, (), True)])


def render_piece(p, model=None):
    """bytes of a log piece; None if it is not concrete (and no model is given)"""
    if isinstance(p, DecStr):
        v = conc(p.val) if model is None else model.eval(p.val, model_completion=True).as_long()
        if v is None:
            return None
        return str(v).encode()
    if isinstance(p, Opaque) and p.kind == 'HexStr':
        v = conc(p.val) if model is None else model.eval(p.val, model_completion=True).as_long()
        if v is None:
            return None
        return ('%x' % v).encode()
    if isinstance(p, Slice):
        if model is None:
            c = p.concrete()
            if c is None and conc(p.len) is not None and conc(p.off) is not None:
                # symbolic bytes (e.g. the Date value): placeholder
                out = []
                for i in range(conc(p.len)):
                    b = conc(z3.simplify(p.at(i)))
                    out.append(b if b is not None else 0x7e)
                return bytes(out)
            return c
        n = model.eval(p.len, model_completion=True).as_long()
        o = model.eval(p.off, model_completion=True).as_long()
        if n > 1 << 16:
            return None
        return bytes(model.eval(z3.Select(p.buf.arr, bv(o + i)), model_completion=True).as_long() for i in range(n))
    return None


def render_log(wire, model=None):
    """concatenated bytes the server wrote (None if some piece is symbolic and no model is given)"""
    out = b''
    for e in wire.log:
        if e[0] == 'w':
            b = render_piece(e[1], model)
            if b is None:
                return None
            out += b
    return out


def parse_responses(data, heads=None):
    """minimal independent HTTP/1.x response splitter for automatic responses (status, headers, body by Content-Length /
    chunked). returns list of dict(status, version, headers, body, complete) ; stops at the first incomplete message"""
    out = []
    i = 0
    while i < len(data):
        j = data.find(b'\r\n\r\n', i)
        if j < 0:
            out.append({'incomplete': True, 'raw': data[i:]})
            break
        head = data[i:j].split(b'\r\n')
        sl = head[0].split(b' ', 2)
        if len(sl) < 2 or not sl[0].startswith(b'HTTP/'):
            out.append({'garbage': True, 'raw': data[i:]})
            break
        hs = []
        for l in head[1:]:
            k, _, v = l.partition(b':')
            hs.append((k.decode('latin1'), v.strip().decode('latin1')))
        status = int(sl[1])
        hd = {k.lower(): v for k, v in hs}
        body_start = j + 4
        body = b''
        end = body_start
        nfinal = sum(1 for r in out if (r.get('status') or 0) >= 200 or r.get('status') == 101)
        is_head = bool(heads) and nfinal < len(heads) and heads[nfinal] and not (100 <= status < 200 and status != 101)
        if 100 <= status < 200 or status in (204, 304) or is_head:
            pass
        elif 'transfer-encoding' in hd and 'chunked' in hd['transfer-encoding'].lower():
            k = body_start
            ok = False
            while True:
                e = data.find(b'\r\n', k)
                if e < 0:
                    break
                try:
                    sz = int(data[k:e].split(b';')[0], 16)
                except ValueError:
                    break
                if sz == 0:
                    if data[e + 2:e + 4] == b'\r\n':
                        end = e + 4
                        ok = True
                    break
                body += data[e + 2:e + 2 + sz]
                k = e + 2 + sz + 2
            if not ok:
                out.append({'incomplete': True, 'status': status, 'raw': data[i:]})
                break
        elif 'content-length' in hd:
            n = int(hd['content-length'])
            body = data[body_start:body_start + n]
            end = body_start + n
            if len(body) < n:
                out.append({'incomplete': True, 'status': status, 'raw': data[i:]})
                break
        else:
            body = data[body_start:]
            end = len(data)
        out.append({'status': status, 'version': sl[0].decode(), 'headers': hs, 'body': body})
        i = end
    return out


def _bufread_target(it, v):
    n = 0
    while isinstance(v, (Ref, BoxObj)) and n < 8:
        v = it.read(v.root, v.path) if isinstance(v, Ref) else v.cell.v
        n += 1
    return v


def bufread_call(it, rref, method, extra=()):
    """<R as BufRead>::fill_buf / consume dispatched on the run-time reader"""
    info = {'kind': 'qualified', 'self_text': 'R', 'self_ty': 'R', 'trait': 'BufRead', 'trait_text': 'std::io::BufRead',
            'method': method, 'text': '<R as std::io::BufRead>::' + method, 'caller': None}
    return it.dispatch(info, [rref] + list(extra))


@model('BufRead::fill_buf', '<BufReader as BufRead>::fill_buf', 'BufReader::fill_buf')
def _(it, a, info):
    r = _bufread_target(it, a[0])
    if isinstance(r, BufReaderObj):
        return r.fill_buf(it)
    raise Unsupported('BufRead::fill_buf on %r' % (r,))


@model('BufRead::consume', '<BufReader as BufRead>::consume', 'BufReader::consume')
def _(it, a, info):
    r = _bufread_target(it, a[0])
    if isinstance(r, BufReaderObj):
        r.consume(it, a[1])
        return unit()
    raise Unsupported('BufRead::consume on %r' % (r,))


@model('BufReader::buffer')
def _(it, a, info):
    r = _bufread_target(it, a[0])
    if isinstance(r, BufReaderObj):
        return r.buffer(it)
    raise Unsupported('BufReader::buffer on %r' % (r,))


@model('BufRead::read_until')
def _(it, a, info):
    """provided method of BufRead, as std implements it: fill_buf, look for the delimiter, copy up to and including it, consume"""
    from .models import buf_append
    rref, delim, vec = a[0], a[1], a[2]
    out = _bufread_target(it, vec)
    total = 0
    rounds = 0
    while True:
        rounds += 1
        if rounds > 64:
            raise Unsupported('read_until exceeded its round bound')
        res = bufread_call(it, rref, 'fill_buf')
        if res.variant == 'Err':
            k = res.fields[0].fields[0] if isinstance(res.fields[0], Struct) and res.fields[0].fields else None
            if isinstance(k, Enum) and k.variant == 'Interrupted':
                continue
            return res
        s = res.fields[0]
        n = conc(s.len)
        if n is None:
            raise Unsupported('read_until over a buffer of symbolic length')
        if n == 0:
            return Ok(bv(total))
        used = n
        found = False
        for i in range(n):
            if it.ctx.branch(s.at(i) == delim):
                used = i + 1
                found = True
                break
        buf_append(it, out, Slice(s.buf, s.off, bv(used)))
        bufread_call(it, rref, 'consume', [bv(used)])
        total += used
        if found:
            return Ok(bv(total))
