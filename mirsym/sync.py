"""E-sync: models of std::sync / std::thread / std::time / mpsc.

Two modes:
  * trace mode (BMC front end): every visible operation appends an Event to the path's trace and returns fresh symbols;
    mirsym/bmc.py turns the traces of all thread programs into a transition system (DESIGN.md §2.2, App. C).
  * sequential mode (SE harnesses): operations act on python-side state; a receive that cannot complete raises Blocked.
"""
import z3
from .values import *
from .interp import Unsupported, RustPanic, Blocked, PathAbort
from .models import MODELS, model, deref, duration, dur_ns, io_error, ArcObj


class Event:
    __slots__ = ('kind', 'obj', 'args', 'res', 'held', 'site', 'extra')

    def __init__(self, kind, obj=None, args=(), res=None, held=(), site=None, extra=None):
        self.kind = kind
        self.obj = obj
        self.args = tuple(args)
        self.res = dict(res or {})
        self.held = tuple(held)
        self.site = site
        self.extra = extra

    def __repr__(self):
        return 'Ev(%s %s %s -> %s)' % (self.kind, self.obj, list(self.args), self.res)


class ThreadEnd(Exception):
    """the thread program stops here (task that never returns, explicit stop)"""

    def __init__(self, why):
        Exception.__init__(self, why)
        self.why = why


class Captured(Exception):
    def __init__(self, value):
        Exception.__init__(self, 'captured')
        self.value = value


class World:
    """per-path registry of shared objects (ids are deterministic: creation order) and the event trace"""

    def __init__(self, ctx, tname='t'):
        self.ctx = ctx
        self.tname = tname
        self.trace = []          # ('ev', Event) | ('br', cond)
        self.counters = {}
        self.held = []           # mutex ids held by this thread (in acquisition order)
        self.spawn_count = 0
        self.capture_spawn = None
        self.tasks_return = False
        self.recording = True
        self.objects = {}        # id -> descriptor dict
        self.assumptions = []
        ctx.data['world'] = self
        ctx.data['trace'] = self.trace
        if tname != 'seq':
            ctx.name_prefix = tname + '.'

    def new_id(self, kind, **desc):
        k = self.counters.get(kind, 0)
        self.counters[kind] = k + 1
        oid = '%s%d' % (kind, k)
        d = {'kind': kind}
        d.update(desc)
        self.objects[oid] = d
        return oid

    def fresh_bv(self, name, w=64):
        return self.ctx.fresh_bv(name, w)

    def fresh_bool(self, name):
        return self.ctx.fresh_bool(name)

    def assume(self, c):
        """assumption over this thread's own fresh symbols (a stated bound); carried into the BMC as a global constraint"""
        self.assumptions.append(c)
        self.ctx.add(c)

    def emit(self, kind, obj=None, args=(), res=None, extra=None):
        e = Event(kind, obj, args, res, tuple(self.held), None, extra)
        if self.recording:
            self.trace.append(('ev', e))
        return e


def world(it):
    w = it.ctx.data.get('world')
    if w is None:
        raise Unsupported('sync operation outside a World')
    return w


# ----------------------------------------------------------------------------------------- trace-mode models
TRACE = {}


def tmodel(*names):
    def deco(f):
        for n in names:
            TRACE[n] = f
        return f
    return deco


class MutexObj(Opaque):
    def __init__(self, oid, data):
        Opaque.__init__(self, 'Mutex')
        self.oid = oid
        self.cell = Cell(data)

    def on_drop(self, it, me):
        it.drop_value(self.cell.v)

    def __repr__(self):
        return '<Mutex %s>' % self.oid


class GuardObj(Opaque):
    def __init__(self, mutex):
        Opaque.__init__(self, 'MutexGuard')
        self.mutex = mutex
        self.live = True

    @property
    def deref_cell(self):
        return self.mutex.cell

    def deref_ref(self, it):
        return Ref(self.mutex.cell, (), True)

    def on_drop(self, it, me):
        if not self.live:
            return
        self.live = False
        w = world(it)
        if w.seq:
            self.mutex.locked = False
            return
        w.emit('unlock', self.mutex.oid)
        if self.mutex.oid in w.held:
            w.held.remove(self.mutex.oid)

    def __repr__(self):
        return '<Guard %s>' % self.mutex.oid


class QueueObj(Opaque):
    """VecDeque shared between threads (lives inside a Mutex)."""

    def __init__(self, oid):
        Opaque.__init__(self, 'VecDeque')
        self.oid = oid

    def __repr__(self):
        return '<Queue %s>' % self.oid


class CondvarObj(Opaque):
    def __init__(self, oid):
        Opaque.__init__(self, 'Condvar')
        self.oid = oid


class AtomicObj(Opaque):
    def __init__(self, oid, init):
        Opaque.__init__(self, 'Atomic')
        self.oid = oid
        self.init = init


class TaskObj(Opaque):
    def __init__(self, tid):
        Opaque.__init__(self, 'Task')
        self.tid = tid

    def __repr__(self):
        return '<Task %s>' % (self.tid,)


class ChanEnd(Opaque):
    def __init__(self, kind, oid):
        Opaque.__init__(self, kind)
        self.oid = oid
        self.live = True

    def clone(self, it):
        w = world(it)
        if not w.seq:
            w.emit('sender_clone', self.oid)
        else:
            w.chans[self.oid]['senders'] += 1
        return ChanEnd(self.kind, self.oid)

    def on_drop(self, it, me):
        if not self.live:
            return
        self.live = False
        w = world(it)
        if w.seq:
            ch = w.chans[self.oid]
            if self.kind == 'Sender':
                ch['senders'] -= 1
            else:
                ch['receiver'] = False
                # values still queued are dropped with the channel
                for v in ch['q']:
                    it.drop_value(v)
                ch['q'] = []
            return
        w.emit('drop_' + self.kind.lower(), self.oid)

    def __repr__(self):
        return '<%s %s>' % (self.kind, self.oid)


def flatten_elem(it, w, v):
    """queue / channel element -> (kind index, payload bv). Element kinds are registered per world."""
    v0 = v
    if isinstance(v, BoxObj):
        v = v.cell.v
    if isinstance(v, TaskObj):
        return 0, v.tid
    if isinstance(v, Enum):
        payload = bv(0)
        if v.fields:
            f = v.fields[0]
            if z3.is_bv(f):
                payload = f if f.size() == 64 else z3.ZeroExt(64 - f.size(), f)
            elif isinstance(f, TaskObj):
                payload = f.tid
            elif isinstance(f, Opaque) and hasattr(f, 'token'):
                payload = f.token
            else:
                raise Unsupported('queue element payload %r' % (f,))
        return v.idx, payload
    if z3.is_bv(v):
        return 0, v
    if is_unit(v):
        return 0, bv(0)
    if isinstance(v, Opaque) and hasattr(v, 'token'):
        return 0, v.token
    raise Unsupported('cannot flatten queue element %r' % (v0,))


@tmodel('Mutex::new')
def _(it, a, info):
    w = world(it)
    return MutexObj(w.new_id('mutex'), a[0])


@tmodel('Condvar::new')
def _(it, a, info):
    return CondvarObj(world(it).new_id('condvar'))


@tmodel('VecDeque::new', 'VecDeque::with_capacity')
def _(it, a, info):
    return QueueObj(world(it).new_id('queue'))


@tmodel('Atomic::new', 'AtomicUsize::new', 'AtomicBool::new')
def _(it, a, info):
    v = a[0]
    if z3.is_bool(v):
        v = z3.If(v, bv(1), bv(0))
    return AtomicObj(world(it).new_id('atomic', init=v), v)


@tmodel('Mutex::lock')
def _(it, a, info):
    w = world(it)
    m = deref(it, a[0])
    if m.oid in w.held:
        w.emit('self_deadlock', m.oid)
        raise ThreadEnd('relock of a held mutex')
    w.emit('lock', m.oid)
    w.held.append(m.oid)
    return Ok(GuardObj(m))


@tmodel('VecDeque::push_back')
def _(it, a, info):
    w = world(it)
    q = deref(it, a[0])
    k, p = flatten_elem(it, w, a[1])
    w.emit('q_push', q.oid, [bv(k, 8), p])
    return unit()


def rebuild_elem(it, w, q_oid, kind, payload):
    mk = w.elem_makers.get(q_oid) or w.elem_makers.get('*')
    if mk is None:
        raise Unsupported('no element maker registered for ' + q_oid)
    return mk(kind, payload)


@tmodel('VecDeque::pop_front')
def _(it, a, info):
    w = world(it)
    q = deref(it, a[0])
    ne = w.fresh_bool('nonempty')
    kind = w.fresh_bv('kind', 8)
    pay = w.fresh_bv('payload')
    w.emit('q_pop', q.oid, [], {'nonempty': ne, 'kind': kind, 'payload': pay})
    if not it.ctx.branch(ne):
        return NONE()
    nk = w.elem_kinds.get(q.oid, w.elem_kinds.get('*', 1))
    for k in range(nk - 1):
        if it.ctx.branch(kind == k):
            return Some(rebuild_elem(it, w, q.oid, k, pay))
    it.ctx.add(kind == nk - 1)
    return Some(rebuild_elem(it, w, q.oid, nk - 1, pay))


@tmodel('VecDeque::front', 'VecDeque::back', 'VecDeque::front_mut', 'VecDeque::back_mut')
def _(it, a, info):
    w = world(it)
    q = deref(it, a[0])
    ne = w.fresh_bool('nonempty')
    kind = w.fresh_bv('kind', 8)
    pay = w.fresh_bv('payload')
    which = 'front' if info['method'].startswith('front') else 'back'
    w.emit('q_peek', q.oid, [], {'nonempty': ne, 'kind': kind, 'payload': pay}, extra=which)
    if not it.ctx.branch(ne):
        return NONE()
    nk = w.elem_kinds.get(q.oid, w.elem_kinds.get('*', 1))
    for k in range(nk - 1):
        if it.ctx.branch(kind == k):
            return Some(Ref(Cell(rebuild_elem(it, w, q.oid, k, pay))))
    it.ctx.add(kind == nk - 1)
    return Some(Ref(Cell(rebuild_elem(it, w, q.oid, nk - 1, pay))))


@tmodel('VecDeque::push_front')
def _(it, a, info):
    w = world(it)
    q = deref(it, a[0])
    k, p = flatten_elem(it, w, a[1])
    w.emit('q_push_front', q.oid, [bv(k, 8), p])
    return unit()


@tmodel('VecDeque::pop_back')
def _(it, a, info):
    w = world(it)
    q = deref(it, a[0])
    ne = w.fresh_bool('nonempty')
    kind = w.fresh_bv('kind', 8)
    pay = w.fresh_bv('payload')
    w.emit('q_pop_back', q.oid, [], {'nonempty': ne, 'kind': kind, 'payload': pay})
    if not it.ctx.branch(ne):
        return NONE()
    nk = w.elem_kinds.get(q.oid, w.elem_kinds.get('*', 1))
    for k in range(nk - 1):
        if it.ctx.branch(kind == k):
            return Some(rebuild_elem(it, w, q.oid, k, pay))
    it.ctx.add(kind == nk - 1)
    return Some(rebuild_elem(it, w, q.oid, nk - 1, pay))


@tmodel('VecDeque::clear')
def _(it, a, info):
    w = world(it)
    q = deref(it, a[0])
    w.emit('q_clear', q.oid)
    return unit()


@tmodel('VecDeque::is_empty')
def _(it, a, info):
    w = world(it)
    q = deref(it, a[0])
    e = w.fresh_bool('empty')
    w.emit('q_is_empty', q.oid, [], {'empty': e})
    return e


@tmodel('VecDeque::len')
def _(it, a, info):
    w = world(it)
    q = deref(it, a[0])
    n = w.fresh_bv('qlen')
    w.emit('q_len', q.oid, [], {'len': n})
    return n


@tmodel('Condvar::notify_one', 'Condvar::notify_all')
def _(it, a, info):
    w = world(it)
    cv = deref(it, a[0])
    w.emit(info['method'], cv.oid)
    return unit()


@tmodel('Condvar::wait')
def _(it, a, info):
    w = world(it)
    cv = deref(it, a[0])
    g = a[1]
    w.emit('wait', cv.oid, [], {}, extra=g.mutex.oid)
    # the thread re-acquires the mutex when it wakes: it still holds it afterwards
    return Ok(g)


@tmodel('Condvar::wait_timeout')
def _(it, a, info):
    w = world(it)
    cv = deref(it, a[0])
    g = a[1]
    d = a[2]
    to = w.fresh_bool('timed_out')
    w.emit('wait_timeout', cv.oid, [dur_ns64(d)], {'timed_out': to}, extra=g.mutex.oid)
    return Ok(Struct('(tuple)', [g, Struct('WaitTimeoutResult', [to])]))


def dur_ns64(d):
    return dur_ns(d)


@tmodel('Atomic::load')
def _(it, a, info):
    w = world(it)
    o = deref(it, a[0])
    v = w.fresh_bv('load')
    w.emit('a_load', o.oid, [], {'val': v})
    if (info.get('text') or '').find('bool') >= 0:
        return z3.simplify(v != 0)
    return v


@tmodel('Atomic::store')
def _(it, a, info):
    w = world(it)
    o = deref(it, a[0])
    v = a[1]
    if z3.is_bool(v):
        v = z3.If(v, bv(1), bv(0))
    w.emit('a_store', o.oid, [v])
    return unit()


@tmodel('Atomic::fetch_add', 'Atomic::fetch_sub')
def _(it, a, info):
    w = world(it)
    o = deref(it, a[0])
    old = w.fresh_bv('old')
    w.emit('a_' + info['method'], o.oid, [a[1]], {'old': old})
    return old


@tmodel('Instant::now')
def _(it, a, info):
    w = world(it)
    t = w.fresh_bv('now')
    w.emit('now', 'clock', [], {'t': t})
    return Struct('Instant', [t])


@tmodel('Instant::elapsed')
def _(it, a, info):
    w = world(it)
    t0 = deref(it, a[0]).fields[0]
    t = w.fresh_bv('now')
    w.emit('now', 'clock', [], {'t': t})
    it.ctx.add(z3.ULE(t0, t))
    return Struct('Duration', [z3.simplify(t - t0)])


@tmodel('thread::spawn', 'spawn')
def _(it, a, info):
    w = world(it)
    idx = w.spawn_count
    w.spawn_count += 1
    if w.capture_spawn is not None and w.capture_spawn == idx:
        raise Captured(a[0])
    kind, arg = w.spawn_arg(it, a[0]) if getattr(w, 'spawn_arg', None) else (None, None)
    w.emit('spawn', 'threads', [arg] if arg is not None else [], extra=kind)
    return Opaque('JoinHandle')


@tmodel('FnMut::call_mut', 'FnOnce::call_once', 'Fn::call')
def _(it, a, info):
    w = world(it)
    f = deref(it, a[0])
    if isinstance(f, BoxObj):
        f = f.cell.v
    if isinstance(f, TaskObj):
        w.emit('task_run', 'tasks', [f.tid])
        if not w.tasks_return:
            raise ThreadEnd('task runs forever')
        return unit()
    args = a[1].fields if isinstance(a[1], Struct) else []
    return it.call_callable(a[0], list(args))


@tmodel('mpsc::channel', 'channel')
def _(it, a, info):
    w = world(it)
    oid = w.new_id('chan')
    w.emit('chan_new', oid)
    return Struct('(tuple)', [ChanEnd('Sender', oid), ChanEnd('Receiver', oid)])


@tmodel('Sender::send')
def _(it, a, info):
    w = world(it)
    s = deref(it, a[0])
    k, p = flatten_elem(it, w, a[1])
    ok = w.fresh_bool('send_ok')
    w.emit('send', s.oid, [bv(k, 8), p], {'ok': ok})
    if it.ctx.branch(ok):
        return Ok(unit())
    return Err(Struct('SendError', [a[1]]))


@tmodel('Receiver::recv')
def _(it, a, info):
    w = world(it)
    r = deref(it, a[0])
    ok = w.fresh_bool('recv_ok')
    kind = w.fresh_bv('kind', 8)
    pay = w.fresh_bv('payload')
    w.emit('recv', r.oid, [], {'ok': ok, 'kind': kind, 'payload': pay})
    if it.ctx.branch(ok):
        return Ok(rebuild_elem(it, w, r.oid, 0, pay))
    return Err(Struct('RecvError', []))


@tmodel('Receiver::try_recv')
def _(it, a, info):
    w = world(it)
    r = deref(it, a[0])
    ok = w.fresh_bool('try_recv_ok')
    disc = w.fresh_bool('try_recv_disconnected')
    kind = w.fresh_bv('kind', 8)
    pay = w.fresh_bv('payload')
    w.emit('try_recv', r.oid, [], {'ok': ok, 'disc': disc, 'kind': kind, 'payload': pay})
    if it.ctx.branch(ok):
        return Ok(rebuild_elem(it, w, r.oid, 0, pay))
    if it.ctx.branch(disc):
        return Err(Enum('TryRecvError', 'Disconnected', 1, []))
    return Err(Enum('TryRecvError', 'Empty', 0, []))


# ----------------------------------------------------------------------------------------- sequential-mode models
SEQ = {}


def smodel(*names):
    def deco(f):
        for n in names:
            SEQ[n] = f
        return f
    return deco


class SeqWorld(World):
    """sequential harness: channels are python queues, mutexes never contend, the clock is symbolic"""

    def __init__(self, ctx):
        World.__init__(self, ctx, 'seq')
        self.seq = True
        self.chans = {}
        self.log = []


World.seq = False
World.elem_kinds = {}
World.elem_makers = {}


@smodel('Mutex::new')
def _(it, a, info):
    w = world(it)
    m = MutexObj(w.new_id('mutex'), a[0])
    m.locked = False
    return m


@smodel('Mutex::lock')
def _(it, a, info):
    m = deref(it, a[0])
    if getattr(m, 'locked', False):
        raise Blocked('Mutex::lock on a mutex this thread already holds', m)
    m.locked = True
    return Ok(GuardObj(m))


@smodel('mpsc::channel', 'channel')
def _(it, a, info):
    w = world(it)
    oid = w.new_id('chan')
    w.chans[oid] = {'q': [], 'senders': 1, 'receiver': True}
    return Struct('(tuple)', [ChanEnd('Sender', oid), ChanEnd('Receiver', oid)])


@smodel('Sender::send')
def _(it, a, info):
    w = world(it)
    s = deref(it, a[0])
    ch = w.chans[s.oid]
    if not ch['receiver']:
        return Err(Struct('SendError', [a[1]]))
    ch['q'].append(a[1])
    w.log.append(('send', s.oid))
    return Ok(unit())


@smodel('Receiver::recv')
def _(it, a, info):
    w = world(it)
    r = deref(it, a[0])
    ch = w.chans[r.oid]
    if ch['q']:
        return Ok(ch['q'].pop(0))
    if ch['senders'] <= 0:
        return Err(Struct('RecvError', []))
    raise Blocked('Receiver::recv on an empty channel whose sender is still alive', r.oid)


@smodel('Receiver::try_recv')
def _(it, a, info):
    w = world(it)
    r = deref(it, a[0])
    ch = w.chans[r.oid]
    if ch['q']:
        return Ok(ch['q'].pop(0))
    return Err(Struct('TryRecvError', []))


@smodel('Receiver::iter')
def _(it, a, info):
    raise Unsupported('mpsc::Receiver::iter')


@smodel('Atomic::new', 'AtomicUsize::new', 'AtomicBool::new')
def _(it, a, info):
    o = AtomicObj(world(it).new_id('atomic'), a[0])
    o.val = a[0]
    return o


@smodel('Atomic::load')
def _(it, a, info):
    return deref(it, a[0]).val


@smodel('Atomic::store')
def _(it, a, info):
    deref(it, a[0]).val = a[1]
    return unit()


@smodel('Condvar::new')
def _(it, a, info):
    return CondvarObj(world(it).new_id('condvar'))


@smodel('Condvar::notify_one', 'Condvar::notify_all')
def _(it, a, info):
    return unit()


# ----------------------------------------------------------------------------------------- logical threads in SE harnesses
import threading


class CoAbort(BaseException):
    pass


class Co:
    """A logical thread of a sequential harness (e.g. the connection thread): runs on its own OS thread but strictly
    alternates with the harness thread (baton passing), so execution stays deterministic. A blocking receive inside it parks
    the logical thread and returns control to the harness; resume() continues it."""
    current = None

    def __init__(self, fn):
        self.fn = fn
        self.state = 'new'          # new | running | parked | done | failed
        self.result = None
        self.exc = None
        self.why = None
        self._go = threading.Semaphore(0)
        self._back = threading.Semaphore(0)
        self._abort = False
        self.thread = None

    def _run(self):
        self._go.acquire()
        try:
            if self._abort:
                raise CoAbort()
            Co.current = self
            self.result = self.fn()
            self.state = 'done'
        except CoAbort:
            self.state = 'aborted'
        except BaseException as e:
            self.exc = e
            self.state = 'failed'
        finally:
            Co.current = None
            self._back.release()

    def resume(self):
        """run until done or parked. returns state"""
        if self.state == 'new':
            import sys
            threading.stack_size(256 * 1024 * 1024)
            self.thread = threading.Thread(target=self._run, daemon=True)
            self.thread.start()
        elif self.state != 'parked':
            return self.state
        self.state = 'running'
        self._go.release()
        self._back.acquire()
        if self.state == 'failed':
            e = self.exc
            self.exc = None
            raise e
        return self.state

    def park(self, why):
        """called from inside the logical thread"""
        self.state = 'parked'
        self.why = why
        Co.current = None
        self._back.release()
        self._go.acquire()
        if self._abort:
            raise CoAbort()
        Co.current = self
        self.state = 'running'

    def abort(self):
        if self.state == 'parked' or self.state == 'new':
            self._abort = True
            if self.state == 'new' and self.thread is None:
                self.state = 'aborted'
                return
            self._go.release()
            self._back.acquire()


_seq_recv_plain = SEQ['Receiver::recv']


def _seq_recv_co(it, a, info):
    w = world(it)
    r = deref(it, a[0])
    ch = w.chans[r.oid]
    while True:
        if ch['q']:
            return Ok(ch['q'].pop(0))
        if ch['senders'] <= 0:
            return Err(Struct('RecvError', []))
        co = Co.current
        if co is None:
            raise Blocked('Receiver::recv on an empty channel whose sender is still alive', r.oid)
        co.park(('recv', r.oid))


SEQ['Receiver::recv'] = _seq_recv_co
