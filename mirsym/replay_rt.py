"""Deterministic replay of thread SCHEDULES against the REAL source of the three
concurrency kernels of tiny-http (src/util/messages_queue.rs, task_pool.rs,
sequential.rs) on a controlled runtime (driver source: /verif/replay/rtdrv).

    binary = build(repo_dir, scratch_dir)
    res = run(binary, {'model': 'queue',
                       'threads': {'c0': 'pop', 'p0': 'push 17'},
                       'sched': [('c0', 'lock', {}), ('c0', 'wait', {}), ...]})

The kernel files are copied from repo_dir/src/util/ into the driver crate's
src/kernels/; only their `use` paths are redirected (std::sync / std::thread /
std::time -> crate::verif_rt::..): function bodies are used unchanged.

SCENARIO (dict given to run())
  model     'queue' | 'pool' | 'writers'
  threads   {name: 'program words'} (dict order = start order) or [(name, words)]
  sched     [(thread, op, {k: v})]   absent/None => FREE RUN (tracing mode)
            (an empty list with mode='gated' is an empty schedule)
  any other key is written as key=value: n, builder, tasks, skip, mode, stall_ms,
  quiesce_ms, max_wait_ms (see /verif/replay/rtdrv/src/main.rs)

PROGRAMS
  queue    one MessagesQueue<u64>::with_capacity(8); groups separated by ';':
           'push 17 18' | 'pop' | 'try_pop' | 'pop_timeout <ns>' | 'unblock' | 'sleep <ms>'
           after each receive call: op `result` + RESULT <thread> <call-idx> <some:<id>|none>
  pool     'new' | 'spawn <id>' | 'drop' | 'sleep <ms>'; a task does op `task_run`
           (+ TASK_RUN <id> <thread>) and then parks for ever (tasks=park, default:
           a pseudo-op `never`) or returns (tasks=return); workers are named by the
           `spawn` schedule entries (child=w0..), in free run w0, w1, ..
  writers  n=<k> SequentialWriters are created by the main thread BEFORE the schedule
           starts (not gated; their ops are printed with setup=1); the builder is kept
           alive (builder=drop destroys it during set-up).  thread h<i> drives writer i:
           'write' | 'flush' | 'drop' | 'sleep <ms>'; the sink does op `sink_write` /
           `sink_flush` (+ SINK <thread> write|flush); DROPPED <thread> is printed just
           before the writer is dropped; without 'drop' the writer is leaked.

GATE  An operation of thread T of kind K waits until the head of the remaining
  schedule is an entry of T.  Entry kinds of SKIPPED_KINDS (q_*, observe) are popped
  automatically.  Mismatching kind => `DIVERGED step=<i> thread=<T> expected=<entry op>
  got=<K>` + report + exit code 3.  The same record with `why=..` is produced when the
  entry cannot be executed by the real primitives: lock / wake of a mutex that is held
  (why=mutex_held_by:<t>), recv on an empty channel with live senders
  (why=recv_would_block), wake timed_out=1 of an untimed wait.
  Entry parameters that are USED: wake timed_out=0|1, notify_one target=<thread>|none
  (absent => FIFO waiter), now t=<ns>, spawn child=<name>.  Everything else is ignored.
  NOTE records (not fatal): spurious_wake (wake timed_out=0 of a thread nobody
  notified), notify_target_not_parked, notify_none_with_waiters, dur_mismatch,
  now_entry_without_t, duplicate_child_name.

RESULT of run()
  results    [(thread, call_idx, id | None)]       RESULT lines (None = `none`)
  task_runs  [(id, thread)]
  sink       [(thread, 'write'|'flush')]
  dropped    [thread]
  ops        [(thread, op, {k: v})]                every executed visible op, in order
             (k/v: obj=m<i>|cv<i>|a<i>|ch<i>, step=<schedule index>, setup=1, val/old/v,
              target, timed_out, notified, child, t, ok, ...)
  end        {'reason': exhausted|stalled|diverged, 'consumed': n, 'total': N, ...}
             exhausted = whole schedule consumed (free run: every thread finished)
             stalled   = the owner of the head entry never arrived (see 'head'), or
                         free run: nobody can move
  head       {'step','thread','op'} first unconsumed entry, or None
  threads    {name: state}  done | parked_wait | parked_timed | blocked_lock |
             blocked_recv | at_gate | running | panicked     ('thread_info' has op=..)
  diverged   None | {'step','thread','expected','got','why'}
  notes, panics, bad    lists of dicts / strings
  rc, killed (True if the process had to be killed after timeout_s), raw

OP SEQUENCES of the kernels (observed with the tracing mode on the pinned sources,
printed again by the self-test; `[..]` = not visible to the runtime, listed by the
model as q_* entries and skipped by the gate)
  MessagesQueue::push            lock [q_push] notify_one unlock
  MessagesQueue::unblock         lock [q_push] notify_one unlock
  MessagesQueue::pop  (element)  lock [q_pop] unlock
  MessagesQueue::pop  (empty)    lock [q_pop] wait ... wake [q_pop] unlock
                                 (an empty q_pop after a wake => wait again)
  MessagesQueue::try_pop         lock [q_pop] unlock
  MessagesQueue::pop_timeout     lock [q_pop]                       element => unlock
      empty:                     now wait_timeout ... wake now(elapsed)
      timed out / <1 ms left:    [q_pop] unlock                     (final look)
      otherwise:                 [q_pop] (empty => now wait_timeout wake now ...) unlock
  driver, after each receive:    result
  TaskPool::new (dispatcher)     4 x spawn(child)
  worker start                   a_fetch_add(active) lock [q_pop]
      queue empty (goes idle):   a_fetch_add(waiting) a_load(active)
                                 wait (active <= 4) | wait_timeout dur=5000000000 (active > 4)
      wake of a wait, or of a wait_timeout with timed_out=0:
                                 wake a_fetch_sub(waiting) [q_pop]   (empty => goes idle again)
      wake timed_out=1:          wake [q_is_empty]
          queue empty:           a_fetch_sub(waiting) unlock a_fetch_sub(active)   (thread ends)
          not empty:             a_fetch_sub(waiting) [q_pop]
      task found:                unlock task_run
      after a task returned:     lock [q_pop] ...
  TaskPool::spawn enqueue path   lock a_load(waiting) [q_len] [q_push] notify_one unlock
  TaskPool::spawn thread path    lock a_load(waiting) [q_len] spawn(child) unlock
      new worker:                a_fetch_add(active) task_run   (then as worker start)
  TaskPool::drop                 a_store(active=999999999) notify_all
  SequentialWriterBuilder::next  chan_new
  SequentialWriter::write/flush  first writer / trigger already consumed:
                                     lock sink_write|sink_flush unlock
                                 otherwise, first call:
                                     recv drop_receiver lock sink_write|sink_flush unlock
  SequentialWriter::drop         trigger consumed or first writer:  send drop_sender
                                 trigger still present:   recv drop_receiver send drop_sender
                                 (send has ok=0 when the successor's receiver is gone)
  SequentialWriterBuilder drop   drop_receiver (of the last trigger)
"""

import hashlib
import os
import re
import shutil
import subprocess
import sys
import tempfile

_HERE = os.path.dirname(os.path.abspath(__file__))
RTDRV_SRC = os.path.join(os.path.dirname(_HERE), 'replay', 'rtdrv')
KERNELS = ('messages_queue.rs', 'task_pool.rs', 'sequential.rs')

# must be the same list as verif_rt::SKIPPED_KINDS
SKIPPED_KINDS = ('q_push', 'q_push_front', 'q_pop', 'q_pop_back', 'q_peek',
                 'q_is_empty', 'q_len', 'q_clear', 'observe')

# abspath(repo_dir) -> (fingerprint, binary)
_BUILT = {}


# ------------------------------------------------------------------ rewrite

_REDIRECT = re.compile(r'(?<![A-Za-z0-9_])(?:::)?\b(?:std|core)::(sync|thread|time)\b')
# forms the regex above cannot see: `use std::{sync::.., thread, ..}`
_NESTED = re.compile(r'\buse\s+(?:::)?(?:std|core)\s*::\s*\{[^;]*\b(sync|thread|time)\b[^;]*;', re.S)
_LEFT = re.compile(r'(?<!verif_rt::)\b(?:std|core|alloc)::(sync|thread|time)\b')


def rewrite_kernel(text, fname='<kernel>'):
    """Redirects the std::sync / std::thread / std::time paths of a kernel file to
    crate::verif_rt.  Returns (new_text, problems)."""
    problems = []
    for m in _NESTED.finditer(text):
        problems.append('%s: nested use of std::{..%s..} is not redirected: %s'
                        % (fname, m.group(1), ' '.join(m.group(0).split())))
    new = _REDIRECT.sub(lambda m: 'crate::verif_rt::' + m.group(1), text)
    for i, line in enumerate(new.splitlines(), 1):
        code = line.split('//')[0]
        m = _LEFT.search(code)
        if m:
            problems.append('%s:%d: path not redirected: %s' % (fname, i, line.strip()))
    # Instant must be the virtual one
    code = '\n'.join(l.split('//')[0] for l in new.splitlines())
    if re.search(r'\bInstant\b', code):
        imported = re.search(r'use\s+crate::verif_rt::time::[^;]*\bInstant\b', code)
        inline = re.search(r'crate::verif_rt::time::Instant\b', code)
        if not (imported or inline):
            problems.append('%s: `Instant` is used but not taken from verif_rt::time' % fname)
    return new, problems


def install_kernels(repo_dir, crate_dir, log=None):
    """Copies + rewrites the three kernel files into crate_dir/src/kernels/."""
    log = log or (lambda s: sys.stderr.write(s + '\n'))
    kdir = os.path.join(crate_dir, 'src', 'kernels')
    os.makedirs(kdir, exist_ok=True)
    problems = []
    for f in KERNELS:
        src = os.path.join(repo_dir, 'src', 'util', f)
        with open(src, encoding='utf-8') as fh:
            text = fh.read()
        new, pr = rewrite_kernel(text, f)
        for p in pr:
            log('replay_rt: ERROR ' + p)
        problems += pr
        with open(os.path.join(kdir, f), 'w', encoding='utf-8') as fh:
            fh.write(new)
    return problems


# ------------------------------------------------------------------ build

def _fingerprint(repo_dir):
    h = hashlib.sha256()
    paths = [os.path.join(repo_dir, 'src', 'util', f) for f in KERNELS]
    for root, dirs, files in os.walk(RTDRV_SRC):
        dirs.sort()
        for f in sorted(files):
            paths.append(os.path.join(root, f))
    for p in paths:
        try:
            with open(p, 'rb') as fh:
                h.update(p.encode() + b'\0' + fh.read() + b'\0')
        except OSError:
            h.update(p.encode() + b'\0<missing>\0')
    return h.hexdigest()


def build(repo_dir, scratch_dir, timeout_s=600):
    """Builds the driver with the kernels of repo_dir; returns the path of the binary.
    Raises RuntimeError (with the stderr tail) on failure.  Cached per repo_dir
    (rebuilt when the kernel files or the driver sources changed)."""
    repo_dir = os.path.abspath(repo_dir)
    scratch_dir = os.path.abspath(scratch_dir)
    fp = _fingerprint(repo_dir)
    hit = _BUILT.get(repo_dir)
    if hit and hit[0] == fp and os.path.isfile(hit[1]):
        return hit[1]

    os.makedirs(scratch_dir, exist_ok=True)
    dst = os.path.join(scratch_dir, 'rtdrv')
    target = os.path.join(scratch_dir, 'rtdrv_target')
    if os.path.exists(dst):
        shutil.rmtree(dst)
    shutil.copytree(RTDRV_SRC, dst, ignore=shutil.ignore_patterns('target', 'Cargo.lock'))
    kdir = os.path.join(dst, 'src', 'kernels')
    if os.path.exists(kdir):
        shutil.rmtree(kdir)
    problems = install_kernels(repo_dir, dst)

    env = dict(os.environ)
    env['CARGO_TARGET_DIR'] = target
    env['CARGO_NET_OFFLINE'] = 'true'
    env.pop('RUSTFLAGS', None)
    env.pop('RUSTC_WRAPPER', None)
    cmd = ['cargo', 'build', '--offline', '--release']
    try:
        p = subprocess.run(cmd, cwd=dst, env=env, stdout=subprocess.PIPE,
                           stderr=subprocess.PIPE, timeout=timeout_s)
        rc, err = p.returncode, p.stderr.decode('utf-8', 'replace')
    except subprocess.TimeoutExpired as e:
        rc, err = None, 'cargo build timed out\n' + (e.stderr or b'').decode('utf-8', 'replace')
    binary = os.path.join(target, 'release', 'rtdrv')
    if rc != 0 or not os.path.isfile(binary):
        tail = '\n'.join(err.splitlines()[-60:])
        pre = ''.join('rewrite problem: %s\n' % p for p in problems)
        raise RuntimeError('rtdrv build failed (rc=%r) for %s:\n%s%s' % (rc, repo_dir, pre, tail))
    _BUILT[repo_dir] = (fp, binary)
    return binary


# ------------------------------------------------------------------ run

def _fmt(v):
    if isinstance(v, bool):
        return '1' if v else '0'
    s = str(v)
    return re.sub(r'\s+', '_', s) if s else '_'


def scenario_text(scenario):
    lines = []
    threads = scenario.get('threads') or {}
    items = list(threads.items()) if isinstance(threads, dict) else list(threads)
    for k, v in scenario.items():
        if k in ('threads', 'sched') or v is None:
            continue
        lines.append('%s=%s' % (k, _fmt(v)))
    for name, words in items:
        if isinstance(words, (list, tuple)):
            words = ' '.join(str(w) for w in words)
        lines.append('thread=%s %s' % (name, words))
    sched = scenario.get('sched')
    if sched is not None:
        if not sched and 'mode' not in scenario:
            lines.append('mode=gated')
        for e in sched:
            t, op = e[0], e[1]
            kv = e[2] if len(e) > 2 and e[2] else {}
            lines.append(' '.join(['sched=%s %s' % (t, op)] +
                                  ['%s=%s' % (k, _fmt(v)) for k, v in kv.items() if v is not None]))
    return '\n'.join(lines) + '\n'


def _kv(tokens):
    d = {}
    for t in tokens:
        if '=' in t:
            k, v = t.split('=', 1)
            d[k] = v
    return d


def _int(s, dflt=None):
    try:
        return int(s)
    except (TypeError, ValueError):
        return dflt


def parse_output(text):
    res = {'results': [], 'task_runs': [], 'sink': [], 'dropped': [], 'ops': [],
           'end': None, 'head': None, 'threads': {}, 'thread_info': {}, 'diverged': None,
           'notes': [], 'panics': [], 'bad': [], 'start': None, 'done': False}
    for line in text.splitlines():
        tok = line.split()
        if not tok:
            continue
        tag = tok[0]
        if tag == 'OP' and len(tok) >= 3:
            res['ops'].append((tok[1], tok[2], _kv(tok[3:])))
        elif tag == 'RESULT' and len(tok) >= 4:
            v = tok[3]
            val = _int(v[5:]) if v.startswith('some:') else None
            res['results'].append((tok[1], _int(tok[2]), val))
        elif tag == 'TASK_RUN' and len(tok) >= 3:
            res['task_runs'].append((_int(tok[1]), tok[2]))
        elif tag == 'SINK' and len(tok) >= 3:
            res['sink'].append((tok[1], tok[2]))
        elif tag == 'DROPPED' and len(tok) >= 2:
            res['dropped'].append(tok[1])
        elif tag == 'END':
            d = _kv(tok[1:])
            c = d.get('consumed', '0/0').split('/')
            d['consumed'] = _int(c[0], 0)
            d['total'] = _int(c[1], 0) if len(c) > 1 else 0
            for k in ('skipped', 'ops'):
                if k in d:
                    d[k] = _int(d[k], 0)
            res['end'] = d
        elif tag == 'HEAD':
            d = _kv(tok[1:])
            d['step'] = _int(d.get('step'))
            res['head'] = d
        elif tag == 'THREAD' and len(tok) >= 3:
            d = _kv(tok[2:])
            res['threads'][tok[1]] = d.get('state')
            res['thread_info'][tok[1]] = d
        elif tag == 'DIVERGED':
            d = _kv(tok[1:])
            d['step'] = _int(d.get('step'))
            d.setdefault('why', None)
            res['diverged'] = d
        elif tag == 'NOTE':
            res['notes'].append(_kv(tok[1:]))
        elif tag == 'PANIC':
            d = _kv(tok[1:3])
            d['msg'] = line.split('msg=', 1)[1] if 'msg=' in line else ''
            res['panics'].append(d)
        elif tag in ('BAD_PROGRAM', 'BAD_SCENARIO', 'IOERR'):
            res['bad'].append(line)
        elif tag == 'START':
            res['start'] = _kv(tok[1:])
        elif tag == 'DONE':
            res['done'] = True
    return res


def run(binary, scenario, timeout_s=30):
    """Runs one scenario; never hangs (the process is killed after timeout_s)."""
    fd, path = tempfile.mkstemp(prefix='rtdrv_', suffix='.scn', dir='/var/tmp')
    try:
        with os.fdopen(fd, 'w') as fh:
            fh.write(scenario_text(scenario))
        killed = False
        p = subprocess.Popen([binary, path], stdout=subprocess.PIPE, stderr=subprocess.PIPE)
        try:
            out, err = p.communicate(timeout=timeout_s)
        except subprocess.TimeoutExpired:
            killed = True
            p.kill()
            try:
                out, err = p.communicate(timeout=5)
            except subprocess.TimeoutExpired:
                out, err = b'', b''
    finally:
        try:
            os.remove(path)
        except OSError:
            pass
    text = out.decode('utf-8', 'replace')
    res = parse_output(text)
    res['rc'] = p.returncode
    res['killed'] = killed
    res['raw'] = text
    res['stderr'] = err.decode('utf-8', 'replace')
    return res


def ops_of(res, thread=None, with_setup=True):
    """compact op list of a run: ['lock', 'notify_one', ..] (of one thread)"""
    return [op for (t, op, kv) in res['ops']
            if (thread is None or t == thread) and (with_setup or 'setup' not in kv)]


# ------------------------------------------------------------------ self-test

def _selftest():
    ok = True

    def check(name, cond, detail=''):
        nonlocal ok
        print('  [%s] %s%s' % ('ok' if cond else 'FAIL', name, (' -- ' + detail) if detail and not cond else ''))
        ok = ok and bool(cond)

    tmp = tempfile.mkdtemp(prefix='replay_rt_selftest_', dir='/var/tmp')
    try:
        repo = os.path.join(tmp, 'repo')
        shutil.copytree('/repo', repo, ignore=shutil.ignore_patterns('target', '.git'))
        binary = build(repo, os.path.join(tmp, 'scratch'))
        print('built', binary)
        check('build is cached', build(repo, os.path.join(tmp, 'scratch')) == binary)

        # ---------------------------------------------------------- tracing mode
        print('== tracing mode (free run): observed op sequences')

        def trace(title, scn, per_thread=True):
            scn = dict(scn)
            scn.setdefault('quiesce_ms', 150)
            r = run(binary, scn)
            print('-- ' + title)
            names = []
            for (t, op, kv) in r['ops']:
                if t not in names:
                    names.append(t)
            for t in names:
                seq = []
                for (tt, op, kv) in r['ops']:
                    if tt != t:
                        continue
                    extra = [k + '=' + kv[k] for k in ('child', 'target', 'timed_out', 'ok', 'woken', 'val', 'old', 'dur') if k in kv]
                    seq.append(op + ('(' + ','.join(extra) + ')' if extra else ''))
                print('   %-5s %s' % (t, ' '.join(seq)))
            print('   results=%s task_runs=%s sink=%s dropped=%s end=%s threads=%s' % (
                r['results'], r['task_runs'], r['sink'], r['dropped'],
                r['end'] and r['end']['reason'], r['threads']))
            return r

        r = trace('queue: push 17', {'model': 'queue', 'threads': {'p0': 'push 17'}})
        check('push ops', ops_of(r, 'p0') == ['lock', 'notify_one', 'unlock'])
        r = trace('queue: push 17 ; pop (element present) ; try_pop (empty)',
                  {'model': 'queue', 'threads': {'p0': 'push 17 ; pop ; try_pop'}})
        check('pop present / try_pop ops', ops_of(r, 'p0') ==
              ['lock', 'notify_one', 'unlock', 'lock', 'unlock', 'result', 'lock', 'unlock', 'result'])
        check('pop present result', r['results'] == [('p0', 0, 17), ('p0', 1, None)])
        r = trace('queue: pop (empty, then woken by push 17)',
                  {'model': 'queue', 'threads': {'c0': 'pop', 'p0': 'sleep 60 ; push 17'}})
        check('pop empty-then-woken ops', ops_of(r, 'c0') == ['lock', 'wait', 'wake', 'unlock', 'result'])
        check('pop empty-then-woken result', r['results'] == [('c0', 0, 17)])
        r = trace('queue: pop_timeout 40ms (timed out)',
                  {'model': 'queue', 'threads': {'c0': 'pop_timeout 40000000'}})
        check('pop_timeout timed-out ops', ops_of(r, 'c0') ==
              ['lock', 'now', 'wait_timeout', 'wake', 'now', 'unlock', 'result'])
        check('pop_timeout timed-out result', r['results'] == [('c0', 0, None)])
        r = trace('queue: pop_timeout 150ms (woken by push 18 after 40 ms)',
                  {'model': 'queue', 'threads': {'c0': 'pop_timeout 150000000', 'p0': 'sleep 40 ; push 18'}})
        check('pop_timeout woken result', r['results'] == [('c0', 0, 18)])
        r = trace('queue: pop, unblock',
                  {'model': 'queue', 'threads': {'c0': 'pop', 'u0': 'sleep 60 ; unblock'}})
        check('unblock ops', ops_of(r, 'u0') == ['lock', 'notify_one', 'unlock'])
        check('unblock result', r['results'] == [('c0', 0, None)])

        r = trace('pool: new', {'model': 'pool', 'threads': {'disp': 'new'}})
        check('TaskPool::new ops', ops_of(r, 'disp') == ['spawn'] * 4)
        check('worker start ops', ops_of(r, 'w0') == ['a_fetch_add', 'lock', 'a_fetch_add', 'a_load', 'wait'])
        r = trace('pool: new ; (all idle) spawn 1   [enqueue path]',
                  {'model': 'pool', 'threads': {'disp': 'new sleep 80 spawn 1'}})
        check('spawn enqueue path ops', ops_of(r, 'disp')[4:] == ['lock', 'a_load', 'notify_one', 'unlock'])
        check('one task ran', len(r['task_runs']) == 1 and r['task_runs'][0][0] == 1)
        r = trace('pool: new ; spawn 1..5 while 4 workers idle: 5th goes the new-thread path',
                  {'model': 'pool', 'threads': {'disp': 'new sleep 80 spawn 1 sleep 40 spawn 2 sleep 40 spawn 3 sleep 40 spawn 4 sleep 40 spawn 5'}})
        check('spawn new-thread path ops', ops_of(r, 'disp')[-4:] == ['lock', 'a_load', 'spawn', 'unlock'])
        check('5 tasks ran', sorted(i for i, _ in r['task_runs']) == [1, 2, 3, 4, 5])
        r = trace('pool: tasks return; 5th worker retires after its idle timeout (capped to 100 ms real time); drop',
                  {'model': 'pool', 'tasks': 'return', 'max_wait_ms': 100,
                   'threads': {'disp': 'new spawn 1 sleep 300 drop'}})
        check('TaskPool::drop ops', ops_of(r, 'disp')[-2:] == ['a_store', 'notify_all'])

        r = trace('writers n=2: h0 write flush drop ; h1 write drop',
                  {'model': 'writers', 'n': 2, 'threads': {'h0': 'sleep 40 write flush drop', 'h1': 'write drop'}})
        check('builder next ops', ops_of(r, 'main') == ['chan_new', 'chan_new'])
        check('writer 0 ops', ops_of(r, 'h0') ==
              ['lock', 'sink_write', 'unlock', 'lock', 'sink_flush', 'unlock', 'send', 'drop_sender'])
        check('writer 1 ops', ops_of(r, 'h1') ==
              ['recv', 'drop_receiver', 'lock', 'sink_write', 'unlock', 'send', 'drop_sender'])
        check('sink order', r['sink'] == [('h0', 'write'), ('h0', 'flush'), ('h1', 'write')])
        r = trace('writers n=2: h1 drop without writing (waits for its turn); builder dropped',
                  {'model': 'writers', 'n': 2, 'builder': 'drop',
                   'threads': {'h0': 'sleep 40 drop', 'h1': 'drop'}})
        check('drop with pending trigger ops', ops_of(r, 'h1') == ['recv', 'drop_receiver', 'send', 'drop_sender'])

        # ---------------------------------------------------------- gated mode
        print('== gated mode')
        # (1) consumer parks first, producer wakes it
        sched = [('c0', 'lock', {}), ('c0', 'q_pop', {}), ('c0', 'wait', {}),
                 ('p0', 'lock', {}), ('p0', 'q_push', {'payload': 17}),
                 ('p0', 'notify_one', {'target': 'c0'}), ('p0', 'unlock', {}),
                 ('c0', 'wake', {'timed_out': 0}), ('c0', 'q_pop', {}), ('c0', 'unlock', {}),
                 ('c0', 'result', {'what': 'pop'})]
        r = run(binary, {'model': 'queue', 'threads': {'c0': 'pop', 'p0': 'push 17'}, 'sched': sched})
        print('-- (1) queue pop/push:', r['results'], r['end'], r['threads'])
        check('(1) result', r['results'] == [('c0', 0, 17)])
        check('(1) exhausted, all done', r['end']['reason'] == 'exhausted' and
              r['end']['consumed'] == len(sched) and set(r['threads'].values()) == {'done'} and r['rc'] == 0)
        check('(1) executed ops follow the schedule',
              [(t, op) for t, op, kv in r['ops']] == [(t, op) for t, op, kv in sched if op not in SKIPPED_KINDS])

        # (1b) lost wake-up: the producer runs first, the notification reaches nobody;
        #      the consumer still finds the element
        sched = [('p0', 'lock', {}), ('p0', 'notify_one', {'target': 'none'}), ('p0', 'unlock', {}),
                 ('c0', 'lock', {}), ('c0', 'unlock', {}), ('c0', 'result', {})]
        r = run(binary, {'model': 'queue', 'threads': {'c0': 'pop', 'p0': 'push 23'}, 'sched': sched})
        check('(1b) producer first', r['results'] == [('c0', 0, 23)] and r['end']['reason'] == 'exhausted')

        # (1c) pop_timeout that times out with a virtual clock, then a second call gets the element
        sched = [('c0', 'lock', {}), ('c0', 'now', {'t': 1000}), ('c0', 'wait_timeout', {'dur': 40000000}),
                 ('c0', 'wake', {'timed_out': 1}), ('c0', 'now', {'t': 40001000}), ('c0', 'unlock', {}),
                 ('c0', 'result', {}),
                 ('p0', 'lock', {}), ('p0', 'notify_one', {'target': 'none'}), ('p0', 'unlock', {}),
                 ('c0', 'lock', {}), ('c0', 'unlock', {}), ('c0', 'result', {})]
        r = run(binary, {'model': 'queue', 'threads': {'c0': 'pop_timeout 40000000 ; try_pop', 'p0': 'push 5'},
                         'sched': sched})
        print('-- (1c) pop_timeout:', r['results'], r['end'], r['notes'])
        check('(1c) timeout then element', r['results'] == [('c0', 0, None), ('c0', 1, 5)] and
              r['end']['reason'] == 'exhausted')

        # (2) writers n=2: h1 tries to write first and has to wait for h0's drop
        sched = [('h0', 'lock', {}), ('h0', 'sink_write', {}), ('h0', 'unlock', {}),
                 ('h0', 'send', {}), ('h0', 'drop_sender', {}),
                 ('h1', 'recv', {}), ('h1', 'drop_receiver', {}),
                 ('h1', 'lock', {}), ('h1', 'sink_write', {}), ('h1', 'unlock', {}),
                 ('h1', 'send', {}), ('h1', 'drop_sender', {})]
        r = run(binary, {'model': 'writers', 'n': 2, 'threads': {'h1': 'write drop', 'h0': 'write drop'},
                         'sched': sched})
        print('-- (2) writers:', r['sink'], r['dropped'], r['end'], r['threads'])
        check('(2) sink order', r['sink'] == [('h0', 'write'), ('h1', 'write')])
        check('(2) exhausted, all done', r['end']['reason'] == 'exhausted' and
              set(r['threads'].values()) == {'done'} and sorted(r['dropped']) == ['h0', 'h1'])

        # (2b) a schedule that lets h1 receive before h0 sent is not executable
        sched = [('h1', 'recv', {}), ('h1', 'drop_receiver', {})]
        r = run(binary, {'model': 'writers', 'n': 2, 'threads': {'h1': 'write drop', 'h0': 'write drop'},
                         'sched': sched})
        print('-- (2b) infeasible recv:', r['diverged'], r['threads'])
        check('(2b) infeasible recv is reported', r['diverged'] is not None and
              r['diverged']['why'] == 'recv_would_block' and r['rc'] == 3 and
              r['end']['reason'] == 'diverged' and r['threads'].get('h1') == 'blocked_recv')

        # (3) divergence: the schedule expects `wait` but the consumer finds an element
        sched = [('p0', 'lock', {}), ('p0', 'notify_one', {'target': 'none'}), ('p0', 'unlock', {}),
                 ('c0', 'lock', {}), ('c0', 'wait', {})]
        r = run(binary, {'model': 'queue', 'threads': {'c0': 'pop', 'p0': 'push 1'}, 'sched': sched})
        print('-- (3) divergence:', r['diverged'], r['end'])
        check('(3) diverged', r['diverged'] is not None and r['diverged']['step'] == 4 and
              r['diverged']['expected'] == 'wait' and r['diverged']['got'] == 'unlock' and r['rc'] == 3)

        # (4) stall: the schedule wants an op of a thread that is parked
        sched = [('c0', 'lock', {}), ('c0', 'wait', {}), ('c0', 'unlock', {})]
        r = run(binary, {'model': 'queue', 'threads': {'c0': 'pop'}, 'sched': sched})
        print('-- (4) wrong op of a parked thread:', r['diverged'], r['end'], r['threads'])
        check('(4) diverged (wake vs unlock)', r['diverged'] is not None and r['diverged']['got'] == 'wake')
        sched = [('c0', 'lock', {}), ('c0', 'wait', {}), ('p0', 'lock', {})]
        r = run(binary, {'model': 'queue', 'threads': {'c0': 'pop'}, 'sched': sched})
        print('-- (4b) head owned by a thread that does not exist:', r['end'], r['head'], r['threads'])
        check('(4b) stalled', r['end']['reason'] == 'stalled' and r['head']['thread'] == 'p0' and
              r['threads'] == {'c0': 'parked_wait'})

        # (5) pool: four workers go idle one after the other, a task is enqueued and
        #     handed to w2; a second dispatch while w2 has not taken the lock back yet
        sched = [('disp', 'spawn', {'child': 'w%d' % i}) for i in range(4)]
        for i in range(4):
            w = 'w%d' % i
            sched += [(w, 'a_fetch_add', {}), (w, 'lock', {}), (w, 'q_pop', {}), (w, 'a_fetch_add', {}),
                      (w, 'a_load', {}), (w, 'wait', {})]
        sched += [('disp', 'lock', {}), ('disp', 'a_load', {}), ('disp', 'q_len', {}), ('disp', 'q_push', {}),
                  ('disp', 'notify_one', {'target': 'w2'}), ('disp', 'unlock', {}),
                  ('w2', 'wake', {'timed_out': 0}), ('w2', 'a_fetch_sub', {}), ('w2', 'q_pop', {}),
                  ('w2', 'unlock', {}), ('w2', 'task_run', {'id': 7})]
        r = run(binary, {'model': 'pool', 'threads': {'disp': 'new spawn 7'}, 'sched': sched})
        print('-- (5) pool:', r['task_runs'], r['end'], r['threads'])
        check('(5) task 7 ran on w2', r['task_runs'] == [(7, 'w2')])
        check('(5) states', r['end']['reason'] == 'exhausted' and r['threads'] ==
              {'disp': 'done', 'w0': 'parked_wait', 'w1': 'parked_wait', 'w2': 'at_gate', 'w3': 'parked_wait'})
        loads = [kv.get('val') for t, op, kv in r['ops'] if t == 'disp' and op == 'a_load']
        check('(5) dispatcher saw 4 waiting workers', loads == ['4'])

        # (6) never hangs: a schedule whose head thread never shows up, tiny timeout
        r = run(binary, {'model': 'queue', 'threads': {'c0': 'sleep 5000 ; pop'}, 'stall_ms': 60000,
                         'sched': [('c0', 'lock', {})]}, timeout_s=1)
        check('(6) killed after timeout_s', r['killed'] and r['end'] is None)

        # rewrite checks
        _, pr = rewrite_kernel('use std::{sync::Arc, thread};\nfn f() { let _ = std::time::Instant::now(); }\n', 'x.rs')
        check('nested use is reported', len(pr) == 1 and 'nested' in pr[0], repr(pr))
        new, pr = rewrite_kernel('use std::sync::atomic::{AtomicUsize, Ordering};\nuse std::thread;\n'
                                 'use std::time::{Duration, Instant};\nfn f() { ::std::mem::swap(&mut 1, &mut 2); '
                                 'let _ = ::std::sync::Arc::new(1); }\n', 'y.rs')
        check('plain paths are redirected', not pr and 'std::sync' not in new.replace('verif_rt::sync', '') and
              '::std::mem::swap' in new and ' crate::verif_rt::sync::Arc::new' in new, new)
    finally:
        shutil.rmtree(tmp, ignore_errors=True)
        _BUILT.clear()
    print('SELFTEST', 'OK' if ok else 'FAILED')
    return 0 if ok else 1


if __name__ == '__main__':
    sys.exit(_selftest())
