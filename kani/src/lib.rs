//! Kani (CBMC) proof harnesses over the public scalar kernels of tiny-http, as a second engine next to mirsym.
//! Built by /verif/check in a scratch directory against a copy of the tree under check.
#![allow(dead_code)]

#[cfg(kani)]
mod proofs {
    use core::cmp::Ordering;
    use tiny_http::{HTTPVersion, StatusCode};

    /// C05 anchor "version ordering" (common.rs): Ord / PartialOrd / Eq of HTTPVersion are the lexicographic order on
    /// (major, minor), for every pair of versions (2 x 2 x u8, full width), and the comparison the coding selection uses
    /// (`<= HTTP/1.0`) is the expected set.
    #[kani::proof]
    fn version_ordering_is_lexicographic() {
        let a = HTTPVersion(kani::any(), kani::any());
        let b = HTTPVersion(kani::any(), kani::any());
        let expected = (a.0, a.1).cmp(&(b.0, b.1));
        assert!(a.cmp(&b) == expected);
        assert!(a.partial_cmp(&b) == Some(expected));
        assert!((a == b) == (expected == Ordering::Equal));
        assert!((a <= HTTPVersion(1, 0)) == (a.0 < 1 || (a.0 == 1 && a.1 == 0)));
        assert!((a < b) == (expected == Ordering::Less));
        assert!((a >= b) == (expected != Ordering::Less));
    }

    /// vacuity witness: the harness above reaches its last assertion (this one must FAIL)
    #[kani::proof]
    fn witness_version_ordering_reached() {
        let a = HTTPVersion(kani::any(), kani::any());
        let b = HTTPVersion(kani::any(), kani::any());
        let _ = a.cmp(&b);
        assert!(false);
    }

    /// StatusCode conversions are the identity on u16 (C04/C05 use the numeric code for the 1xx/204/304 decisions)
    #[kani::proof]
    fn status_code_roundtrip() {
        let n: u16 = kani::any();
        let s = StatusCode::from(n);
        assert!(s.0 == n);
        assert!(*s.as_ref() == n);
        assert!(s == n && n == s);
        let i: i32 = kani::any();
        kani::assume(i >= 0 && i <= 65535);
        assert!(StatusCode::from(i).0 as i32 == i);
    }
}
